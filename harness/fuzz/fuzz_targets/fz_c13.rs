#![no_main]
use libfuzzer_sys::fuzz_target;

fuzz_target!(|data: &[u8]| {
    altrios_verif::engine::fuzz::one_input(&altrios_verif::props::speed_profile::C13, data);
});
