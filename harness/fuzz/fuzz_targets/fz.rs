#![no_main]
use libfuzzer_sys::fuzz_target;

// one target for all twenty properties; VERIF_FUZZ_PROP=<Cxx> selects generator and oracle
fuzz_target!(|data: &[u8]| {
    altrios_verif::engine::fuzz::one_input_env(data);
});
