//! altrios-verif — property-based checks for NREL/altrios (see /verif/DESIGN.md).
//! Library part: engine, generators, oracles, property modules (shared by the `vcheck`
//! binary and the libFuzzer targets under fuzz/).

pub mod engine;
pub mod gen;
pub mod oracle;
pub mod props;
