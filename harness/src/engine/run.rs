//! Supervisor / worker / single-case runner.

use super::*;
use proptest::strategy::{Strategy, ValueTree};
use proptest::test_runner::{Config, RngAlgorithm, TestRng, TestRunner};
use serde_json::{json, Value};
use std::collections::{BTreeMap, BTreeSet, HashSet};
use std::io::Write;
use std::path::{Path, PathBuf};
use std::sync::atomic::{AtomicBool, AtomicU64, AtomicUsize, Ordering};
use std::sync::{Arc, Mutex};
use std::time::Instant;

pub const VERIF_ROOT: &str = "/verif";

pub fn seed_from_env() -> u64 {
    std::env::var("VERIF_SEED")
        .ok()
        .and_then(|s| s.trim().parse::<i64>().ok())
        .map(|v| v as u64)
        .unwrap_or(0)
}

fn threads() -> usize {
    std::env::var("VERIF_THREADS")
        .ok()
        .and_then(|s| s.parse().ok())
        .unwrap_or(16)
}

fn case_seed(seed: u64, prop: &str, idx: u64) -> [u8; 32] {
    // splitmix64 over (seed, fnv(prop), idx)
    let mut s = seed ^ fnv64(prop).rotate_left(17) ^ idx.wrapping_mul(0x9E3779B97F4A7C15);
    let mut out = [0u8; 32];
    for k in 0..4 {
        s = s.wrapping_add(0x9E3779B97F4A7C15);
        let mut z = s;
        z = (z ^ (z >> 30)).wrapping_mul(0xBF58476D1CE4E5B9);
        z = (z ^ (z >> 27)).wrapping_mul(0x94D049BB133111EB);
        z ^= z >> 31;
        out[k * 8..k * 8 + 8].copy_from_slice(&z.to_le_bytes());
    }
    out
}

fn work_dir(id: &str) -> PathBuf {
    let p = Path::new(VERIF_ROOT).join("work").join(id);
    let _ = std::fs::create_dir_all(&p);
    p
}

// ---------------------------------------------------------------------------------------
// known findings

#[derive(Clone, Debug, serde::Deserialize)]
pub struct Finding {
    pub property: String,
    pub signature: String,
    pub what: String,
    pub status: String,
    #[serde(default)]
    pub commit: Option<String>,
}

pub fn load_findings() -> Vec<Finding> {
    let p = Path::new(VERIF_ROOT).join("known_findings.json");
    match std::fs::read_to_string(&p) {
        Ok(s) => {
            let v: Value = serde_json::from_str(&s).expect("known_findings.json parses");
            serde_json::from_value(v["findings"].clone()).expect("known_findings.json schema")
        }
        Err(_) => vec![],
    }
}

fn open_finding<'a>(fs: &'a [Finding], id: &str, sig: &str) -> Option<&'a Finding> {
    fs.iter()
        .find(|f| f.property == id && f.status == "open" && f.signature == sig)
}

// ---------------------------------------------------------------------------------------
// executing one case in-process

/// Run a case (JSON text) through the property with panic capture.
pub fn exec_case(p: &dyn Property, case_json: &str) -> Ctx {
    let mut cx = Ctx::default();
    let r = catch(|| {
        let mut inner = Ctx::default();
        p.run(case_json, &mut inner);
        inner
    });
    match r {
        Ok(inner) => cx = inner,
        Err(pr) => {
            // an unwind that escaped the property's own guards
            if pr.in_altrios() && p.panic_is_violation() {
                cx.fail(
                    format!("{}|panic|{}", p.id(), pr.class()),
                    format!("unwind out of code under test: {} at {}:{}", pr.msg, pr.file, pr.line),
                );
            } else if pr.in_altrios() {
                cx.discard(&format!("panic_in_code:{}", pr.class()));
            } else {
                cx.fail(
                    format!("{}|harness-panic|{}", p.id(), pr.class()),
                    format!("panic in harness code: {} at {}:{}", pr.msg, pr.file, pr.line),
                );
            }
        }
    }
    cx
}

fn gen_case(p: &dyn Property, tape: &[u32], tier: Tier) -> String {
    let mut g = Gen::new(tape);
    p.generate(&mut g, tier)
}

// ---------------------------------------------------------------------------------------
// worker

#[derive(serde::Serialize, serde::Deserialize, Debug, Clone)]
pub struct CaseResult {
    pub idx: u64,
    pub hash: u64,
    pub cx: Ctx,
    /// case JSON for sample candidates and for all failures (shrunk case per failure below)
    #[serde(default)]
    pub case: Option<String>,
    /// per failure signature: shrunk case JSON and number of shrink evaluations
    #[serde(default)]
    pub shrunk: Vec<(String, String, u64, String)>,
    #[serde(default)]
    pub secs: f64,
}

struct Shared {
    next: AtomicU64,
    end: u64,
    skip: HashSet<u64>,
    out: Mutex<std::fs::File>,
    started: Vec<AtomicU64>, // per-thread start time in ms since t0 (0 = idle)
    hang: AtomicBool,
    new_sigs: Mutex<BTreeSet<String>>,
    stop: AtomicBool,
}

/// `vcheck worker <id> <tier> <start> <end> <skipfile> <outfile>`
fn limit_memory(gb: u64) {
    // an exploding case must fail inside its own process, not take the sandbox down
    unsafe {
        let lim = libc::rlimit { rlim_cur: gb << 30, rlim_max: gb << 30 };
        libc::setrlimit(libc::RLIMIT_AS, &lim);
    }
}

pub fn worker_main(p: &'static dyn Property, tier: Tier, start: u64, end: u64, skipfile: &str, outfile: &str) -> i32 {
    install_panic_hook();
    limit_memory(40);
    let seed = seed_from_env();
    let skip: HashSet<u64> = std::fs::read_to_string(skipfile)
        .unwrap_or_default()
        .split_whitespace()
        .filter_map(|s| s.parse().ok())
        .collect();
    let findings = Arc::new(load_findings());
    let nthreads = threads();
    let out = std::fs::OpenOptions::new()
        .create(true)
        .append(true)
        .open(outfile)
        .expect("open worker outfile");
    let sh = Arc::new(Shared {
        next: AtomicU64::new(start),
        end,
        skip,
        out: Mutex::new(out),
        started: (0..nthreads).map(|_| AtomicU64::new(0)).collect(),
        hang: AtomicBool::new(false),
        new_sigs: Mutex::new(BTreeSet::new()),
        stop: AtomicBool::new(false),
    });
    let t0 = Instant::now();
    let wd = work_dir(p.id());
    let live = Arc::new(AtomicUsize::new(nthreads));
    let mut handles = vec![];
    for t in 0..nthreads {
        let sh = sh.clone();
        let findings = findings.clone();
        let wd = wd.clone();
        let live = live.clone();
        let h = std::thread::Builder::new()
            .stack_size(64 << 20)
            .spawn(move || {
                let inflight = wd.join(format!("inflight-{t}.json"));
                loop {
                    if sh.stop.load(Ordering::Relaxed) {
                        break;
                    }
                    let idx = sh.next.fetch_add(1, Ordering::SeqCst);
                    if idx >= sh.end {
                        break;
                    }
                    if sh.skip.contains(&idx) {
                        continue;
                    }
                    let res = run_generated(p, tier, seed, idx, &findings, &sh, t, t0, &inflight);
                    let line = serde_json::to_string(&res).unwrap();
                    let mut o = sh.out.lock().unwrap();
                    let _ = writeln!(o, "{line}");
                    let _ = o.flush();
                }
                let _ = std::fs::remove_file(&inflight);
                live.fetch_sub(1, Ordering::SeqCst);
            })
            .unwrap();
        handles.push(h);
    }
    // watchdog
    let limit_ms = p.case_timeout_s() * 1000;
    loop {
        std::thread::sleep(std::time::Duration::from_millis(200));
        if live.load(Ordering::SeqCst) == 0 {
            break;
        }
        let now = t0.elapsed().as_millis() as u64 + 1;
        for (t, s) in sh.started.iter().enumerate() {
            let st = s.load(Ordering::Relaxed);
            if st != 0 && now > st + limit_ms {
                eprintln!("WATCHDOG thread {t} exceeded {limit_ms} ms");
                sh.hang.store(true, Ordering::SeqCst);
            }
        }
        if sh.hang.load(Ordering::SeqCst) {
            // leave in-flight files in place for the supervisor
            std::process::exit(3);
        }
    }
    for h in handles {
        let _ = h.join();
    }
    0
}

#[allow(clippy::too_many_arguments)]
fn run_generated(
    p: &dyn Property,
    tier: Tier,
    seed: u64,
    idx: u64,
    findings: &[Finding],
    sh: &Shared,
    t: usize,
    t0: Instant,
    inflight: &Path,
) -> CaseResult {
    let rng = TestRng::from_seed(RngAlgorithm::ChaCha, &case_seed(seed, p.id(), idx));
    let cfg = Config {
        failure_persistence: None,
        ..Config::default()
    };
    let mut runner = TestRunner::new_with_rng(cfg, rng);
    let len = p.tape_len(tier);
    let strat = proptest::collection::vec(proptest::num::u32::ANY, len..=len);
    let mut tree = strat.new_tree(&mut runner).expect("tape tree");
    let tape = tree.current();
    let case = gen_case(p, &tape, tier);
    let hash = fnv64(&case);
    let mark = |on: bool| {
        sh.started[t].store(
            if on { t0.elapsed().as_millis() as u64 + 1 } else { 0 },
            Ordering::Relaxed,
        )
    };
    let write_inflight = |c: &str| {
        let _ = std::fs::write(inflight, format!("{{\"idx\":{idx},\"case\":{c}}}"));
    };
    write_inflight(&case);
    mark(true);
    let tc = Instant::now();
    let cx = exec_case(p, &case);
    let secs = tc.elapsed().as_secs_f64();
    mark(false);

    let mut res = CaseResult {
        idx,
        hash,
        cx,
        case: None,
        shrunk: vec![],
        secs,
    };
    if idx < 24 || idx % 97 == 0 {
        res.case = Some(case.clone());
    }
    // shrink each new (unlisted) failure signature, a bounded number per run
    let new_fails: Vec<String> = res
        .cx
        .fails
        .iter()
        .filter(|f| open_finding(findings, p.id(), &f.signature).is_none())
        .map(|f| f.signature.clone())
        .collect();
    if !new_fails.is_empty() {
        res.case = Some(case.clone());
    }
    for sig in new_fails {
        {
            let mut ns = sh.new_sigs.lock().unwrap();
            if ns.contains(&sig) {
                continue;
            }
            ns.insert(sig.clone());
            if ns.len() >= 4 {
                sh.stop.store(true, Ordering::Relaxed);
            }
        }
        res.case = Some(case.clone());
        let mut evals = 0u64;
        let mut best_tape = tape.clone();
        // wall-clock cap on shrinking (affects only how small the replay file gets)
        let shrink_t0 = Instant::now();
        let mut test = |tp: &[u32], evals: &mut u64| -> bool {
            if shrink_t0.elapsed().as_secs() > 90 {
                *evals += 1_000_000; // exhausts every budget
                return false;
            }
            *evals += 1;
            let c = gen_case(p, tp, tier);
            write_inflight(&c);
            mark(true);
            let cx = exec_case(p, &c);
            mark(false);
            cx.fails.iter().any(|f| f.signature == sig)
        };
        // 1. own tape passes (cheap, effective): truncate-to-zero suffix, zero blocks
        tape_shrink(&mut best_tape, &mut test, &mut evals, 350);
        // 2. proptest's value-tree shrinking on what is left is not possible on a modified
        //    tape, so it runs on the original tree only when the tape passes made no progress
        if best_tape == tape {
            let mut last_failed = true;
            while evals < 600 {
                let moved = if last_failed { tree.simplify() } else { tree.complicate() };
                if !moved {
                    break;
                }
                let cur = tree.current();
                last_failed = test(&cur, &mut evals);
                if last_failed {
                    best_tape = cur;
                }
            }
        }
        let shrunk_case = gen_case(p, &best_tape, tier);
        let detail = exec_case(p, &shrunk_case)
            .fails
            .iter()
            .find(|f| f.signature == sig)
            .map(|f| f.detail.clone())
            .unwrap_or_default();
        res.shrunk.push((sig, shrunk_case, evals, detail));
    }
    res
}

/// Hypothesis-style passes on the raw tape; `test` returns true when the failure persists.
fn tape_shrink(
    tape: &mut Vec<u32>,
    test: &mut dyn FnMut(&[u32], &mut u64) -> bool,
    evals: &mut u64,
    budget: u64,
) {
    let n = tape.len();
    // pass 1: zero a suffix — binary search the shortest prefix that still fails
    let (mut lo, mut hi) = (0usize, n);
    while lo < hi && *evals < budget {
        let mid = (lo + hi) / 2;
        let mut t = tape.clone();
        for x in t[mid..].iter_mut() {
            *x = 0;
        }
        if test(&t, evals) {
            hi = mid;
            *tape = t;
        } else {
            lo = mid + 1;
        }
    }
    let live = hi.min(n);
    // pass 2: delete blocks (shifts later choices left), then zero blocks
    for &bs in &[32usize, 8, 2, 1] {
        let mut i = 0;
        while i + bs <= live && *evals < budget {
            if tape[i..(i + bs).min(n)].iter().all(|x| *x == 0) {
                i += bs;
                continue;
            }
            let mut t = tape.clone();
            t.drain(i..i + bs);
            t.resize(n, 0);
            if test(&t, evals) {
                *tape = t;
                continue;
            }
            let mut t = tape.clone();
            for x in t[i..i + bs].iter_mut() {
                *x = 0;
            }
            if t != *tape && test(&t, evals) {
                *tape = t;
            }
            i += bs;
        }
    }
    // pass 3: halve single values
    let mut i = 0;
    while i < live && *evals < budget {
        if tape[i] > 0 {
            let mut t = tape.clone();
            t[i] /= 2;
            if test(&t, evals) {
                *tape = t;
                continue;
            }
        }
        i += 1;
    }
}

/// `vcheck gen <id> <tier> <idx>`: print the generated case (debugging aid)
pub fn gen_main(p: &'static dyn Property, tier: Tier, idx: u64) -> i32 {
    let seed = seed_from_env();
    let rng = TestRng::from_seed(RngAlgorithm::ChaCha, &case_seed(seed, p.id(), idx));
    let mut runner = TestRunner::new_with_rng(Config { failure_persistence: None, ..Config::default() }, rng);
    let len = p.tape_len(tier);
    let strat = proptest::collection::vec(proptest::num::u32::ANY, len..=len);
    let tree = strat.new_tree(&mut runner).expect("tape tree");
    println!("{{\"property\":\"{}\",\"case\":{}}}", p.id(), gen_case(p, &tree.current(), tier));
    0
}

/// `vcheck seeds <id> <dir> <n>`: n random full-length tapes (little-endian u32) as a
/// starting corpus for the libFuzzer stage, a pure function of VERIF_SEED
pub fn seeds_main(p: &'static dyn Property, dir: &str, n: u64) -> i32 {
    let seed = seed_from_env();
    let _ = std::fs::create_dir_all(dir);
    for idx in 0..n {
        let rng = TestRng::from_seed(RngAlgorithm::ChaCha, &case_seed(seed ^ 0x5eed_f00d, p.id(), idx));
        let mut runner = TestRunner::new_with_rng(Config { failure_persistence: None, ..Config::default() }, rng);
        // a third of the seeds are short (small cases), the rest full length
        let len = if idx % 3 == 0 { p.tape_len(Tier::Quick) / 8 } else { p.tape_len(Tier::Quick) };
        let strat = proptest::collection::vec(proptest::num::u32::ANY, len..=len);
        let tree = strat.new_tree(&mut runner).expect("tape tree");
        let bytes: Vec<u8> = tree.current().iter().flat_map(|w| w.to_le_bytes()).collect();
        std::fs::write(Path::new(dir).join(format!("seed-{idx:04}")), bytes).expect("write seed");
    }
    0
}

pub fn tape_from_bytes(p: &dyn Property, data: &[u8]) -> Vec<u32> {
    let len = p.tape_len(Tier::Quick);
    let mut tape: Vec<u32> = data
        .chunks(4)
        .map(|c| {
            let mut b = [0u8; 4];
            b[..c.len()].copy_from_slice(c);
            u32::from_le_bytes(b)
        })
        .collect();
    tape.resize(len, 0);
    tape
}

/// `vcheck from-bytes <id> <file>`: decode a libFuzzer input into the case it stands for
pub fn from_bytes_main(p: &'static dyn Property, file: &str) -> i32 {
    let data = std::fs::read(file).expect("read input");
    let tape = tape_from_bytes(p, &data);
    println!("{{\"property\":\"{}\",\"case\":{}}}", p.id(), gen_case(p, &tape, Tier::Quick));
    0
}

// ---------------------------------------------------------------------------------------
// single case in a fresh process:  vcheck one <id> <casefile> <outfile>

pub fn one_main(p: &'static dyn Property, casefile: &str, outfile: &str) -> i32 {
    install_panic_hook();
    limit_memory(12);
    let txt = std::fs::read_to_string(casefile).expect("read case file");
    let v: Value = serde_json::from_str(&txt).expect("case file parses");
    let case = if v.get("case").is_some() && (v.get("property").is_some() || v.get("idx").is_some()) {
        serde_json::to_string(&v["case"]).unwrap()
    } else {
        txt.clone()
    };
    let cx = exec_case(p, &case);
    let res = CaseResult {
        idx: u64::MAX,
        hash: fnv64(&case),
        cx,
        case: Some(case),
        shrunk: vec![],
        secs: 0.0,
    };
    std::fs::write(outfile, serde_json::to_string(&res).unwrap()).expect("write outfile");
    0
}

// ---------------------------------------------------------------------------------------
// supervisor

pub struct Summary {
    pub violations: Vec<(String, PathBuf)>,
    pub known_hits: BTreeMap<String, u64>,
    pub inconclusive: Option<String>,
}

/// the vcheck binary: this process when it is vcheck, else (libFuzzer target) the one the
/// check script has just built
pub fn self_exe() -> PathBuf {
    let me = std::env::current_exe().expect("current_exe");
    if me.file_name().and_then(|n| n.to_str()).map(|n| n.starts_with("vcheck")).unwrap_or(false) {
        me
    } else {
        Path::new(VERIF_ROOT).join("target").join("debug").join("vcheck")
    }
}

fn run_one_child(id: &str, casefile: &Path, timeout_s: u64) -> Result<CaseResult, String> {
    let wd = work_dir(id);
    let outfile = wd.join(format!("one-{}.out", std::process::id()));
    let errfile = wd.join(format!("one-{}.err", std::process::id()));
    let _ = std::fs::remove_file(&outfile);
    let mut child = std::process::Command::new(self_exe())
        .args(["one", id, casefile.to_str().unwrap(), outfile.to_str().unwrap()])
        .stdout(std::process::Stdio::null())
        .stderr(std::fs::File::create(&errfile).unwrap())
        .spawn()
        .map_err(|e| format!("spawn: {e}"))?;
    let t0 = Instant::now();
    let status = loop {
        match child.try_wait() {
            Ok(Some(s)) => break s,
            Ok(None) => {
                if t0.elapsed().as_secs() > timeout_s {
                    let _ = child.kill();
                    let _ = child.wait();
                    return Err("timeout".into());
                }
                std::thread::sleep(std::time::Duration::from_millis(5));
            }
            Err(e) => return Err(format!("wait: {e}")),
        }
    };
    let r = if status.success() {
        let s = std::fs::read_to_string(&outfile).map_err(|e| format!("no outfile: {e}"))?;
        serde_json::from_str::<CaseResult>(&s).map_err(|e| format!("bad outfile: {e}"))
    } else if status.code() == Some(101) || status.code() == Some(2) {
        // ordinary (unwinding) panic in the child's own set-up code: harness problem
        let err = std::fs::read_to_string(&errfile).unwrap_or_default();
        Err(format!("harness: child exited {status}: {}", err.lines().last().unwrap_or("")))
    } else {
        let err = std::fs::read_to_string(&errfile).unwrap_or_default();
        Err(format!("abort:{}", abort_class(&err)))
    };
    let _ = std::fs::remove_file(&outfile);
    let _ = std::fs::remove_file(&errfile);
    r
}

fn abort_class(stderr: &str) -> String {
    // allocation failure (memory limit reached): always reported as such, whatever the
    // backtrace below it says
    if let Some(l) = stderr.lines().find(|l| l.starts_with("memory allocation of")) {
        return l.trim().to_string();
    }
    // the interesting line is the panic / abort message
    let line = stderr
        .lines()
        .rev()
        .find(|l| l.starts_with("PANIC "))
        .or_else(|| {
            stderr.lines().rev().find(|l| {
                let l = l.trim();
                !l.is_empty()
                    && !l.starts_with("note:")
                    && !l.starts_with("stack backtrace")
                    && !l.starts_with("thread caused non-unwinding panic")
            })
        })
        .unwrap_or("")
        .trim();
    // drop the absolute directory of the source file, keep file name
    let line = line.trim_start_matches("PANIC ");
    let line = match line.split_once(' ') {
        Some((loc, rest)) if loc.contains(".rs:") => {
            format!("{} {}", loc.rsplit('/').next().unwrap_or(loc), rest)
        }
        _ => line.to_string(),
    };
    msg_class(&line, 90)
}

fn sample_value(case: &str) -> Value {
    if case.len() <= 6000 {
        serde_json::from_str(case).unwrap_or(Value::String(case.to_string()))
    } else {
        let mut cut = 3000;
        while !case.is_char_boundary(cut) {
            cut -= 1;
        }
        json!({"case_json_prefix": &case[..cut], "case_json_bytes": case.len()})
    }
}

/// `vcheck run <id> quick|thorough`  and  `vcheck replay <id> <file>`
pub fn supervise(p: &'static dyn Property, tier: Tier, replay_only: Option<&str>) -> i32 {
    let t0 = Instant::now();
    let id = p.id();
    let seed = seed_from_env();
    let findings = load_findings();
    let wd = work_dir(id);
    // clean stale files
    if let Ok(rd) = std::fs::read_dir(&wd) {
        for e in rd.flatten() {
            let n = e.file_name().to_string_lossy().to_string();
            if n.starts_with("inflight-") || n.starts_with("one-") || n == "results.jsonl" || n == "skip.txt" {
                let _ = std::fs::remove_file(e.path());
            }
        }
    }
    let viol_dir = Path::new(VERIF_ROOT).join("work").join("violations").join(id);

    let mut violations: Vec<(String, PathBuf)> = vec![];
    let mut known_hits: BTreeMap<String, u64> = BTreeMap::new();
    let mut inconclusive: Option<String> = None;
    let mut printed_known: BTreeSet<String> = BTreeSet::new();

    let mut note_fail = |f: &Failure,
                         case: &str,
                         origin: &str,
                         violations: &mut Vec<(String, PathBuf)>,
                         known_hits: &mut BTreeMap<String, u64>| {
        if let Some(k) = open_finding(&findings, id, &f.signature) {
            *known_hits.entry(f.signature.clone()).or_insert(0) += 1;
            if printed_known.insert(f.signature.clone()) {
                println!("KNOWN-FINDING: property={} {} [{}]", id, k.what, k.signature);
            }
        } else if !violations.iter().any(|(s, _)| s == &f.signature) {
            let _ = std::fs::create_dir_all(&viol_dir);
            let path = viol_dir.join(format!("{:016x}.json", fnv64(&f.signature)));
            let body = json!({
                "property": id,
                "signature": f.signature,
                "detail": f.detail,
                "origin": origin,
                "seed": seed,
                "case": serde_json::from_str::<Value>(case).unwrap_or(Value::Null),
            });
            std::fs::write(&path, serde_json::to_string_pretty(&body).unwrap()).expect("write violation file");
            println!("VIOLATION property={} replay={}", id, path.display());
            println!("  signature: {}", f.signature);
            println!("  detail: {}", f.detail.replace('\n', "\n    "));
            violations.push((f.signature.clone(), path));
        }
    };

    // ---- replay tier
    let mut replayed = 0u64;
    let mut replay_files: Vec<PathBuf> = vec![];
    if let Some(f) = replay_only {
        replay_files.push(PathBuf::from(f));
    } else if let Ok(rd) = std::fs::read_dir(Path::new(VERIF_ROOT).join("replays").join(id)) {
        let mut v: Vec<PathBuf> = rd
            .flatten()
            .map(|e| e.path())
            .filter(|p| p.extension().map(|e| e == "json").unwrap_or(false))
            .collect();
        v.sort();
        replay_files = v;
    }
    for f in &replay_files {
        replayed += 1;
        match run_one_child(id, f, p.case_timeout_s()) {
            Ok(res) => {
                if let Some(d) = &res.cx.discard {
                    if replay_only.is_some() {
                        println!("replay {}: discarded ({d})", f.display());
                    }
                }
                for fl in &res.cx.fails {
                    note_fail(
                        fl,
                        res.case.as_deref().unwrap_or("null"),
                        &format!("replay:{}", f.display()),
                        &mut violations,
                        &mut known_hits,
                    );
                }
                if replay_only.is_some() && res.cx.fails.is_empty() {
                    println!("replay {}: pass (labels {:?})", f.display(), res.cx.labels);
                }
            }
            Err(e) if e.starts_with("abort:") => {
                let sig = format!("{}|abort|{}", id, &e[6..]);
                let case = std::fs::read_to_string(f).unwrap_or_default();
                let v: Value = serde_json::from_str(&case).unwrap_or(Value::Null);
                let c = if v.get("case").is_some() { v["case"].to_string() } else { case };
                if p.panic_is_violation() {
                    note_fail(
                        &Failure { signature: sig, detail: "process aborted while running the case".into() },
                        &c,
                        &format!("replay:{}", f.display()),
                        &mut violations,
                        &mut known_hits,
                    );
                } else {
                    inconclusive = Some(format!("abort on replay {}: {e}", f.display()));
                }
            }
            Err(e) => inconclusive = Some(format!("replay {} failed to run: {e}", f.display())),
        }
    }
    if replay_only.is_some() {
        return finish(id, &violations, &inconclusive);
    }

    // ---- generated tier
    let total = p.cases(tier) as u64;
    let results_path = wd.join("results.jsonl");
    let skip_path = wd.join("skip.txt");
    let mut skip: BTreeSet<u64> = BTreeSet::new();
    let mut restarts = 0;
    let mut aborted_cases: Vec<(u64, String, String)> = vec![]; // idx, sig, case
    loop {
        std::fs::write(
            &skip_path,
            skip.iter().map(|i| i.to_string()).collect::<Vec<_>>().join("\n"),
        )
        .unwrap();
        let errfile = wd.join("worker.err");
        let status = std::process::Command::new(self_exe())
            .args([
                "worker",
                id,
                tier.name(),
                "0",
                &total.to_string(),
                skip_path.to_str().unwrap(),
                results_path.to_str().unwrap(),
            ])
            .stdout(std::process::Stdio::null())
            .stderr(std::fs::File::create(&errfile).unwrap())
            .status()
            .expect("spawn worker");
        if status.success() {
            break;
        }
        if status.code() == Some(3) {
            inconclusive = Some("watchdog: a case exceeded its time limit".into());
            break;
        }
        // crashed: find the culprit(s) among in-flight cases
        restarts += 1;
        let done: BTreeSet<u64> = read_results(&results_path).iter().map(|r| r.idx).collect();
        skip.extend(done.iter());
        let mut found = false;
        if let Ok(rd) = std::fs::read_dir(&wd) {
            let mut files: Vec<PathBuf> = rd
                .flatten()
                .map(|e| e.path())
                .filter(|p| p.file_name().unwrap().to_string_lossy().starts_with("inflight-"))
                .collect();
            files.sort();
            for f in files {
                let txt = std::fs::read_to_string(&f).unwrap_or_default();
                let v: Value = match serde_json::from_str(&txt) {
                    Ok(v) => v,
                    Err(_) => continue,
                };
                let idx = v["idx"].as_u64().unwrap_or(u64::MAX);
                if done.contains(&idx) {
                    let _ = std::fs::remove_file(&f);
                    continue;
                }
                match run_one_child(id, &f, p.case_timeout_s()) {
                    Ok(res) => {
                        // fine alone: record its result as if the worker had finished it
                        let mut r = res;
                        r.idx = idx;
                        append_result(&results_path, &r);
                        skip.insert(idx);
                    }
                    Err(e) if e.starts_with("abort:") && e.contains("memory allocation") => {
                        skip.insert(idx);
                        found = true;
                        inconclusive = Some(format!("case idx={idx} exhausted its memory limit: {e}"));
                    }
                    Err(e) if e.starts_with("abort:") => {
                        found = true;
                        skip.insert(idx);
                        aborted_cases.push((idx, format!("{}|abort|{}", id, &e[6..]), v["case"].to_string()));
                    }
                    Err(e) => {
                        skip.insert(idx);
                        inconclusive = Some(format!("in-flight case {idx} could not be re-run: {e}"));
                    }
                }
                let _ = std::fs::remove_file(&f);
            }
        }
        if !found {
            let err = std::fs::read_to_string(&errfile).unwrap_or_default();
            inconclusive = Some(format!(
                "worker died ({status}) and no in-flight case reproduces it alone; stderr tail: {}",
                err.lines().rev().take(3).collect::<Vec<_>>().join(" | ")
            ));
            break;
        }
        if restarts > 40 {
            inconclusive = Some("too many worker restarts".into());
            break;
        }
    }

    // ---- aggregate
    let results = read_results(&results_path);
    let mut evaluations = 0u64;
    let mut generated = 0u64;
    let mut discards: BTreeMap<String, u64> = BTreeMap::new();
    let mut labels: BTreeMap<String, u64> = BTreeMap::new();
    let mut discard_labels: BTreeMap<String, u64> = BTreeMap::new();
    let mut counts: BTreeMap<String, u64> = BTreeMap::new();
    let mut nontrivial: BTreeSet<u64> = BTreeSet::new();
    let mut distinct: BTreeSet<u64> = BTreeSet::new();
    let mut sample_cands: Vec<(u64, String)> = vec![];
    let mut shrink_evals = 0u64;
    let mut secs_sum = 0.0;
    let mut secs_max: f64 = 0.0;
    let mut sorted = results;
    sorted.sort_by_key(|r| r.idx);
    sorted.dedup_by_key(|r| r.idx);
    for r in &sorted {
        generated += 1;
        secs_sum += r.secs;
        secs_max = secs_max.max(r.secs);
        if let Some(d) = &r.cx.discard {
            *discards.entry(d.clone()).or_insert(0) += 1;
            if r.cx.fails.is_empty() {
                for l in &r.cx.labels {
                    *discard_labels.entry(l.clone()).or_insert(0) += 1;
                }
                continue;
            }
        }
        evaluations += 1;
        if let Ok(l) = std::env::var("VERIF_FIND_LABEL") {
            if r.cx.labels.contains(&l) {
                println!("FOUND label={l} idx={}", r.idx);
            }
        }
        if let Ok(l) = std::env::var("VERIF_FIND_SIG") {
            if r.cx.fails.iter().any(|f| f.signature.contains(&l)) {
                println!("FOUND sig={l} idx={}", r.idx);
            }
        }
        distinct.insert(r.hash);
        for l in &r.cx.labels {
            *labels.entry(l.clone()).or_insert(0) += 1;
        }
        for (k, v) in &r.cx.counts {
            *counts.entry(k.clone()).or_insert(0) += v;
        }
        if r.cx.nontrivial {
            nontrivial.insert(r.hash);
            if let Some(c) = &r.case {
                sample_cands.push((r.idx, c.clone()));
            }
        }
        for fl in &r.cx.fails {
            let shr = r.shrunk.iter().find(|s| s.0 == fl.signature);
            let case = shr
                .map(|s| s.1.clone())
                .or_else(|| r.case.clone())
                .unwrap_or_else(|| "null".into());
            let mut fl = fl.clone();
            if let Some(s) = shr {
                shrink_evals += s.2;
                if !s.3.is_empty() {
                    fl.detail = s.3.clone();
                }
            }
            note_fail(&fl, &case, &format!("generated idx={} seed={}", r.idx, seed), &mut violations, &mut known_hits);
        }
    }
    for (idx, sig, case) in &aborted_cases {
        generated += 1;
        evaluations += 1;
        if p.panic_is_violation() {
            note_fail(
                &Failure {
                    signature: sig.clone(),
                    detail: format!("process aborted (non-unwinding panic / signal) while running generated case idx={idx}"),
                },
                case,
                &format!("generated idx={idx} seed={seed} (abort)"),
                &mut violations,
                &mut known_hits,
            );
        } else {
            inconclusive = Some(format!("abort in case idx={idx}: {sig}"));
        }
    }
    let n_disc: u64 = discards.values().sum();
    if generated > 50 && n_disc * 100 > generated * 40 && inconclusive.is_none() {
        inconclusive = Some(format!("generator-health: {n_disc} of {generated} cases discarded: {discards:?}"));
    }
    if generated < total && inconclusive.is_none() && violations.len() < 4 {
        inconclusive = Some(format!("only {generated} of {total} cases completed"));
    }

    let mut samples: Vec<Value> = vec![];
    for (_, c) in sample_cands.iter().take(2) {
        samples.push(sample_value(c));
    }
    if sample_cands.len() > 2 {
        samples.push(sample_value(&sample_cands.last().unwrap().1));
    }
    if samples.is_empty() {
        // fall back to any case so that the file still shows what was generated
        if let Some(r) = sorted.iter().find(|r| r.case.is_some()) {
            samples.push(sample_value(r.case.as_ref().unwrap()));
        }
    }

    let evidence = json!({
        "property_id": id,
        "tier": tier.name(),
        "seed": seed as i64,
        "level": "exploration",
        "coverage": {
            "evaluations": evaluations,
            "distinct_nontrivial": nontrivial.len(),
            "rule": p.rule(),
            "samples": samples,
            "generated": generated,
            "distinct_cases": distinct.len(),
            "labels": labels,
            "counters": counts,
            "discards": discards,
            "labels_of_discarded_cases": discard_labels,
            "known_finding_hits": known_hits,
            "replayed_files": replayed,
            "aborted_cases": aborted_cases.len(),
            "shrink_evaluations": shrink_evals,
            "case_seconds_mean": if generated > 0 { secs_sum / generated as f64 } else { 0.0 },
            "case_seconds_max": secs_max,
            "threads": threads(),
            "inconclusive": inconclusive,
        },
        "assumptions": p.assumptions(),
        "wall_s": t0.elapsed().as_secs_f64(),
        "violations": violations.len(),
    });
    let evdir = Path::new(VERIF_ROOT).join("evidence");
    let _ = std::fs::create_dir_all(&evdir);
    std::fs::write(
        evdir.join(format!("{id}.json")),
        serde_json::to_string_pretty(&evidence).unwrap(),
    )
    .expect("write evidence");
    println!(
        "{} {}: generated={} evaluated={} nontrivial={} discards={} known_hits={} violations={} wall={:.1}s",
        id,
        tier.name(),
        generated,
        evaluations,
        nontrivial.len(),
        n_disc,
        known_hits.values().sum::<u64>(),
        violations.len(),
        t0.elapsed().as_secs_f64()
    );
    let _ = std::fs::remove_file(&results_path);
    let _ = std::fs::remove_file(&skip_path);
    finish(id, &violations, &inconclusive)
}

fn finish(id: &str, violations: &[(String, PathBuf)], inconclusive: &Option<String>) -> i32 {
    if !violations.is_empty() {
        return 1;
    }
    if let Some(why) = inconclusive {
        println!("INCONCLUSIVE property={id} {why}");
        return 2;
    }
    0
}

fn read_results(p: &Path) -> Vec<CaseResult> {
    std::fs::read_to_string(p)
        .unwrap_or_default()
        .lines()
        .filter_map(|l| serde_json::from_str::<CaseResult>(l).ok())
        .collect()
}

fn append_result(p: &Path, r: &CaseResult) {
    if let Ok(mut f) = std::fs::OpenOptions::new().create(true).append(true).open(p) {
        let _ = writeln!(f, "{}", serde_json::to_string(r).unwrap());
    }
}
