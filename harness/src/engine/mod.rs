//! One engine for all properties: generation through proptest (choice tape), execution with
//! panic capture, shrinking, replay, known findings, evidence.  See DESIGN.md §2.2.

pub mod fuzz;
pub mod gen;
pub mod run;

pub use gen::Gen;

use std::cell::RefCell;
use std::collections::{BTreeMap, BTreeSet};

#[derive(Clone, Copy, Debug, PartialEq, Eq)]
pub enum Tier {
    Quick,
    Thorough,
}
impl Tier {
    pub fn name(&self) -> &'static str {
        match self {
            Tier::Quick => "quick",
            Tier::Thorough => "thorough",
        }
    }
}

#[derive(Clone, Debug, serde::Serialize, serde::Deserialize)]
pub struct Failure {
    pub signature: String,
    pub detail: String,
}

/// Collector handed to `Property::run`.
#[derive(Default, Debug, Clone, serde::Serialize, serde::Deserialize)]
pub struct Ctx {
    pub labels: BTreeSet<String>,
    pub counts: BTreeMap<String, u64>,
    pub nontrivial: bool,
    pub discard: Option<String>,
    pub fails: Vec<Failure>,
}

impl Ctx {
    pub fn label(&mut self, l: &str) {
        if !self.labels.contains(l) {
            self.labels.insert(l.to_string());
        }
    }
    pub fn label_if(&mut self, c: bool, l: &str) {
        if c {
            self.label(l)
        }
    }
    pub fn count(&mut self, k: &str, n: u64) {
        *self.counts.entry(k.to_string()).or_insert(0) += n;
    }
    pub fn nontrivial(&mut self) {
        self.nontrivial = true;
    }
    pub fn discard(&mut self, why: &str) {
        if self.discard.is_none() {
            self.discard = Some(why.to_string());
        }
    }
    /// record a failure; at most one per distinct signature is kept per case
    pub fn fail(&mut self, signature: impl Into<String>, detail: impl Into<String>) {
        let signature = signature.into();
        if self.fails.iter().any(|f| f.signature == signature) {
            return;
        }
        let mut detail: String = detail.into();
        if detail.len() > 1500 {
            let mut cut = 1500;
            while !detail.is_char_boundary(cut) {
                cut -= 1;
            }
            detail.truncate(cut);
            detail.push_str("…");
        }
        self.fails.push(Failure { signature, detail });
    }
    pub fn failed(&self) -> bool {
        !self.fails.is_empty()
    }
}

pub trait Property: Sync + Send {
    fn id(&self) -> &'static str;
    /// number of generated cases
    fn cases(&self, tier: Tier) -> usize;
    fn tape_len(&self, _tier: Tier) -> usize {
        2048
    }
    /// decode a choice tape into the JSON text of a case
    fn generate(&self, g: &mut Gen, tier: Tier) -> String;
    /// parse the JSON text and evaluate the oracle
    fn run(&self, case_json: &str, cx: &mut Ctx);
    fn rule(&self) -> String;
    fn assumptions(&self) -> Vec<String>;
    /// does the property statement itself forbid unwinding out of the code under test?
    fn panic_is_violation(&self) -> bool {
        false
    }
    fn case_timeout_s(&self) -> u64 {
        120
    }
    /// extra, non-generated work for the thorough tier (e.g. fuzz campaign); returns extra
    /// coverage entries
    fn design_ref(&self) -> &'static str {
        "DESIGN.md §5"
    }
}

// ---------------------------------------------------------------------------------------
// panic capture

#[derive(Clone, Debug)]
pub struct PanicRec {
    pub msg: String,
    pub file: String,
    pub line: u32,
}

impl PanicRec {
    /// `<file stem>:<message with digits collapsed, first 48 chars>`
    pub fn class(&self) -> String {
        let stem = self
            .file
            .rsplit('/')
            .next()
            .unwrap_or("")
            .trim_end_matches(".rs")
            .to_string();
        format!("{}:{}", stem, msg_class(&self.msg, 48))
    }
    pub fn in_altrios(&self) -> bool {
        self.file.contains("altrios-core")
    }
}

pub fn msg_class(msg: &str, n: usize) -> String {
    let mut out = String::new();
    let mut last_hash = false;
    for ch in msg.chars() {
        if ch.is_ascii_digit() || ((ch == '.' || ch == '-' || ch == 'e') && last_hash) {
            if !last_hash {
                out.push('#');
                last_hash = true;
            }
        } else if ch == '\n' {
            out.push(' ');
            last_hash = false;
        } else {
            out.push(ch);
            last_hash = false;
        }
        if out.chars().count() >= n {
            break;
        }
    }
    out.trim().to_string()
}

thread_local! {
    static LAST_PANIC: RefCell<Option<PanicRec>> = const { RefCell::new(None) };
}

pub fn install_panic_hook() {
    std::panic::set_hook(Box::new(|info| {
        let msg = if let Some(s) = info.payload().downcast_ref::<&str>() {
            s.to_string()
        } else if let Some(s) = info.payload().downcast_ref::<String>() {
            s.clone()
        } else {
            "<non-string panic payload>".to_string()
        };
        let (file, line) = info
            .location()
            .map(|l| (l.file().to_string(), l.line()))
            .unwrap_or_default();
        // one line on stderr (redirected to a file in child processes): for non-unwinding
        // panics this is the only trace the supervisor gets
        eprintln!("PANIC {}:{} {}", file, line, msg.replace('\n', " "));
        LAST_PANIC.with(|c| {
            // keep the first panic of a chain
            let mut c = c.borrow_mut();
            if c.is_none() {
                *c = Some(PanicRec { msg, file, line });
            }
        });
    }));
}

/// Run `f`, converting an unwind into `Err(PanicRec)`.
pub fn catch<T>(f: impl FnOnce() -> T) -> Result<T, PanicRec> {
    LAST_PANIC.with(|c| *c.borrow_mut() = None);
    match std::panic::catch_unwind(std::panic::AssertUnwindSafe(f)) {
        Ok(v) => Ok(v),
        Err(_) => Err(LAST_PANIC
            .with(|c| c.borrow_mut().take())
            .unwrap_or(PanicRec {
                msg: "<unknown panic>".into(),
                file: String::new(),
                line: 0,
            })),
    }
}

pub fn fnv64(s: &str) -> u64 {
    let mut h: u64 = 0xcbf29ce484222325;
    for b in s.as_bytes() {
        h ^= *b as u64;
        h = h.wrapping_mul(0x100000001b3);
    }
    h
}

/// relative/absolute closeness with an explicit scale (DESIGN.md §4)
pub fn close(a: f64, b: f64, scale: f64, rel: f64) -> bool {
    if a == b {
        return true;
    }
    if !a.is_finite() || !b.is_finite() {
        return false;
    }
    (a - b).abs() <= rel * scale.abs() + 1e-9
}

/// Implements `Property` for a unit struct from typed `gen`/`check` functions.
#[macro_export]
macro_rules! typed_property {
    ($t:ty, $case:ty) => {
        fn generate(&self, g: &mut $crate::engine::Gen, tier: $crate::engine::Tier) -> String {
            let c: $case = <$t>::gen(g, tier);
            serde_json::to_string(&c).expect("case serialises")
        }
        fn run(&self, case_json: &str, cx: &mut $crate::engine::Ctx) {
            let c: $case = match serde_json::from_str(case_json) {
                Ok(c) => c,
                Err(e) => {
                    cx.discard(&format!("harness: case does not parse: {e}"));
                    return;
                }
            };
            <$t>::check(&c, cx)
        }
    };
}
