//! libFuzzer entry: bytes -> choice tape -> the same generator and the same oracle as the
//! proptest tier.  Coverage feedback comes from altrios-core built with sancov.
//! Known findings are tolerated in-target (so a campaign is not stopped by one crash
//! forever); a new failure writes a replay file and aborts, so libFuzzer keeps the input.
//! One binary serves every property: VERIF_FUZZ_PROP selects it.

use super::run::{exec_case, load_findings, tape_from_bytes, VERIF_ROOT};
use super::*;
use std::io::Write;
use std::sync::{Once, OnceLock};

static INIT: Once = Once::new();
static FINDINGS: OnceLock<Vec<super::run::Finding>> = OnceLock::new();
static PROP: OnceLock<&'static dyn Property> = OnceLock::new();

pub fn one_input_env(data: &[u8]) {
    let p = *PROP.get_or_init(|| {
        let id = std::env::var("VERIF_FUZZ_PROP").expect("VERIF_FUZZ_PROP names the property");
        *crate::props::registry().iter().find(|p| p.id() == id).expect("known property id")
    });
    one_input(p, data)
}

pub fn one_input(p: &dyn Property, data: &[u8]) {
    INIT.call_once(|| {
        // libfuzzer-sys installs an aborting panic hook; ours records and lets catch_unwind work
        install_panic_hook();
    });
    let findings = FINDINGS.get_or_init(load_findings);
    let tape = tape_from_bytes(p, data);
    let mut g = Gen::new(&tape);
    let case = p.generate(&mut g, Tier::Quick);
    let cx = exec_case(p, &case);
    // per-process statistics, appended so the stage can report what the campaign executed
    if let Ok(dir) = std::env::var("VERIF_FUZZ_STATS") {
        if let Ok(mut f) = std::fs::OpenOptions::new().create(true).append(true).open(std::path::Path::new(&dir).join(format!("stats-{}", std::process::id()))) {
            let known = cx.fails.iter().filter(|f| findings.iter().any(|k| k.status == "open" && k.signature == f.signature)).count();
            let _ = writeln!(f, "{:016x} {} {} {}", fnv64(&case), cx.nontrivial as u8, cx.discard.is_some() as u8, known);
        }
    }
    // interesting classes the random tier rarely reaches are kept for inspection
    for l in ["train_rerouted_off_shortest_path", "train_rewound"] {
        if cx.labels.contains(l) {
            let dir = std::path::Path::new(VERIF_ROOT).join("work").join("fuzz-interesting").join(p.id());
            let _ = std::fs::create_dir_all(&dir);
            let _ = std::fs::write(dir.join(format!("{l}-{:016x}.json", fnv64(&case))), format!("{{\"property\":\"{}\",\"case\":{}}}", p.id(), case));
        }
    }
    for f in &cx.fails {
        let known = findings.iter().any(|k| k.property == p.id() && k.status == "open" && k.signature == f.signature);
        if !known {
            let dir = std::path::Path::new(VERIF_ROOT).join("work").join("violations").join(p.id());
            let _ = std::fs::create_dir_all(&dir);
            let path = dir.join(format!("fuzz-{:016x}.json", fnv64(&f.signature)));
            let body = serde_json::json!({"property": p.id(), "signature": f.signature, "detail": f.detail, "origin": "libFuzzer", "case": serde_json::from_str::<serde_json::Value>(&case).unwrap_or(serde_json::Value::Null)});
            let _ = std::fs::write(&path, serde_json::to_string(&body).unwrap());
            eprintln!("FUZZ-FAILURE property={} file={}\n  signature: {}\n  detail: {}", p.id(), path.display(), f.signature, f.detail);
            std::process::abort();
        }
    }
}
