//! Choice-tape generator.
//!
//! Every random choice a property generator makes is read from a tape of `u32`s that was
//! produced by a proptest strategy (`vec(any::<u32>(), len)`), so proptest owns the randomness
//! and the shrinking (simplifying the tape simplifies the decoded case: all mappings are
//! monotone and `0` decodes to the smallest / simplest alternative).  When the tape is
//! exhausted every further choice is `0`.

pub struct Gen<'a> {
    tape: &'a [u32],
    pos: usize,
}

impl<'a> Gen<'a> {
    pub fn new(tape: &'a [u32]) -> Self {
        Self { tape, pos: 0 }
    }
    pub fn used(&self) -> usize {
        self.pos
    }
    #[inline]
    pub fn raw(&mut self) -> u32 {
        let v = self.tape.get(self.pos).copied().unwrap_or(0);
        self.pos += 1;
        v
    }
    /// integer in lo..=hi, monotone in the tape value
    pub fn int(&mut self, lo: i64, hi: i64) -> i64 {
        debug_assert!(lo <= hi);
        let span = (hi - lo) as u64 + 1;
        lo + ((self.raw() as u64 * span) >> 32) as i64
    }
    pub fn usize(&mut self, lo: usize, hi: usize) -> usize {
        self.int(lo as i64, hi as i64) as usize
    }
    /// index into a collection of `len` elements
    pub fn idx(&mut self, len: usize) -> usize {
        if len <= 1 {
            self.raw();
            0
        } else {
            self.usize(0, len - 1)
        }
    }
    /// true with probability `p`; tape value 0 decodes to false
    pub fn bool(&mut self, p: f64) -> bool {
        let x = self.raw() as f64 / 4294967296.0;
        x >= 1.0 - p
    }
    /// uniform f64 in [lo, hi); tape value 0 decodes to lo
    pub fn f64(&mut self, lo: f64, hi: f64) -> f64 {
        let x = self.raw() as f64 / 4294967296.0;
        lo + (hi - lo) * x
    }
    /// f64 in [lo, hi] on a grid of `steps` equal steps (exactly representable multiples when
    /// lo and (hi-lo)/steps are)
    pub fn grid(&mut self, lo: f64, hi: f64, steps: usize) -> f64 {
        let k = self.usize(0, steps);
        lo + (hi - lo) * (k as f64) / (steps as f64)
    }
    /// log-uniform in [lo, hi)
    pub fn logf(&mut self, lo: f64, hi: f64) -> f64 {
        let x = self.f64(lo.ln(), hi.ln());
        x.exp()
    }
    pub fn choose<T: Clone>(&mut self, xs: &[T]) -> T {
        let i = self.idx(xs.len());
        xs[i].clone()
    }
    /// weighted choice; returns index; first alternative is the "simplest"
    pub fn weighted(&mut self, ws: &[u32]) -> usize {
        let total: u64 = ws.iter().map(|w| *w as u64).sum();
        let x = (self.raw() as u64 * total) >> 32;
        let mut acc = 0u64;
        for (i, w) in ws.iter().enumerate() {
            acc += *w as u64;
            if x < acc {
                return i;
            }
        }
        ws.len() - 1
    }
    /// round to `d` decimal digits so that JSON text stays short and exact
    pub fn round(x: f64, d: i32) -> f64 {
        let m = 10f64.powi(d);
        (x * m).round() / m
    }
}
