//! C17 — every model object survives save/load in every advertised format, mid-run too.
//!
//! (a) save and load succeed; (b) a second round trip returns an equal object and identical
//! bytes (no drift); (c)/(d) a simulation checkpointed after k steps through the format and
//! resumed produces the same remaining trajectory as the uninterrupted run (byte-equal YAML
//! for YAML / binary, numbers within 1e-9 relative for JSON).

use crate::engine::*;
use crate::gen::net_chain::*;
use crate::gen::net_corridor::*;
use crate::gen::powertrain::*;
use crate::props::c19::U19;
use crate::props::corridor::*;
use crate::props::slts::gen_slts_case;
use crate::props::train_run::*;
use altrios_core::consist::consist_sim::ConsistSimulation;
use altrios_core::consist::locomotive::loco_sim::{LocomotiveSimulation, PowerTrace};
use altrios_core::consist::locomotive::{DummyLoco, LocoParams, Locomotive, PowertrainType};
use altrios_core::consist::{Consist, PowerDistributionControlType, Proportional, RESGreedy};
use altrios_core::track::*;
use altrios_core::train::*;
use altrios_core::traits::SerdeAPI;
use serde::{Deserialize, Serialize};
use serde_json::Value;
use std::collections::HashMap;

pub const FORMATS: [&str; 12] = ["yaml", "json", "bin", "file.yaml", "file.json", "file.bin", "to_str(yml)/from_str(.YAML)", "to_str(.JSON)/from_str(json)", "to_bincode/from_reader(.bin)", "file.yml/from_reader(YML)", "file.JSON", "file.BIN"];

#[derive(Serialize, Deserialize, Clone, Debug)]
pub struct C17Case {
    /// which object (see `KINDS`)
    pub kind: u8,
    pub fmt: u8,
    /// 0 default-constructed, 1 generated parameters, 2 after `k` steps of a short run
    pub state: u8,
    pub k: usize,
    pub total: usize,
    pub units: Vec<UnitSpec>,
    pub pdct: u8,
    pub trace: Vec<(f64, f64)>,
    pub train: Option<TrainCase>,
    pub corridor: Option<DispatchCase>,
    pub special: u8,
    /// settings changed in the object's image before the trip: (leaf choice, operator:
    /// 0 flip a bool, 1 number -> 0, 2 number x 1.25)
    #[serde(default)]
    pub mutate: Vec<(u16, u8)>,
    /// consist and set-speed simulations: before step `recompose.1` is taken the consist's
    /// composition changes (1: last unit cut out with drain_loco_vec, 2: last unit removed through
    /// the public field, 3: first unit added once more through set_loco_vec); 0 = never
    #[serde(default)]
    pub recompose: (u8, usize),
}

pub const KINDS: [&str; 32] = [
    "FuelConverter", "Generator", "ElectricDrivetrain", "ReversibleEnergyStorage", "Locomotive:conventional", "Locomotive:battery",
    "Locomotive:hybrid", "Locomotive:dummy", "Consist", "PowerTrace", "SpeedTrace", "LocomotiveSimulation", "ConsistSimulation",
    "SetSpeedTrainSim", "SpeedLimitTrainSim", "RailVehicle", "TrainConfig", "TrainSimBuilder", "TrainParams", "PathTpc:unfinished",
    "PathTpc:finished", "TrainRes", "FricBrake", "TrainState", "BrakingPoints", "Link", "Network", "Location", "LinkPath",
    "TimedLinkPath", "EstTimeNet", "InitTrainState",
];

fn tmp(ext: &str) -> std::path::PathBuf {
    let dir = std::path::Path::new(crate::engine::run::VERIF_ROOT).join("work").join("c17");
    let _ = std::fs::create_dir_all(&dir);
    let tid = format!("{:?}", std::thread::current().id()).replace(|c: char| !c.is_ascii_digit(), "");
    dir.join(format!("obj-{}-{}.{}", std::process::id(), tid, ext))
}

/// file extension / format string spelling used by route `fmt` (family = fmt % 3).  Routes
/// 0-5: `to_yaml` / `to_json` / `to_bincode` and `to_file` with the canonical lower-case
/// extensions; routes 6-11: the other advertised entry points (`to_str` / `from_str`,
/// `from_reader`) and the other accepted spellings (`yml`, upper case, leading dot)
fn ext_of(fmt: u8, writing: bool) -> &'static str {
    match (fmt, writing) {
        (9, _) => "yml",
        (10, _) => "JSON",
        (11, _) => "BIN",
        (f, _) => ["yaml", "json", "bin"][f as usize % 3],
    }
}

pub fn save<T: SerdeAPI>(x: &T, fmt: u8) -> Result<Vec<u8>, String> {
    match fmt {
        0 => x.to_yaml().map(|s| s.into_bytes()).map_err(|e| format!("{e:#}")),
        1 => x.to_json().map(|s| s.into_bytes()).map_err(|e| format!("{e:#}")),
        2 | 8 => x.to_bincode().map_err(|e| format!("{e:#}")),
        6 => x.to_str("yml").map(|s| s.into_bytes()).map_err(|e| format!("{e:#}")),
        7 => x.to_str(".JSON").map(|s| s.into_bytes()).map_err(|e| format!("{e:#}")),
        f => {
            let p = tmp(ext_of(f, true));
            x.to_file(&p).map_err(|e| format!("{e:#}"))?;
            let b = std::fs::read(&p).map_err(|e| e.to_string())?;
            // saving over an existing, longer file (a results file written again, a rolling
            // checkpoint) must leave exactly the new image behind
            let mut junk = b.clone();
            junk.extend(std::iter::repeat(b'#').take(4096));
            std::fs::write(&p, &junk).map_err(|e| e.to_string())?;
            x.to_file(&p).map_err(|e| format!("{e:#}"))?;
            let b2 = std::fs::read(&p).map_err(|e| e.to_string())?;
            let _ = std::fs::remove_file(&p);
            if b2 != b {
                return Err(format!("OVERWRITE: to_file over an existing file of {} bytes left {} bytes where a fresh file gets {}", junk.len(), b2.len(), b.len()));
            }
            Ok(b)
        }
    }
}

pub fn load<T: SerdeAPI>(bytes: &[u8], fmt: u8) -> Result<T, String> {
    match fmt {
        0 => T::from_yaml(String::from_utf8_lossy(bytes)).map_err(|e| format!("{e:#}")),
        1 => T::from_json(String::from_utf8_lossy(bytes)).map_err(|e| format!("{e:#}")),
        2 => T::from_bincode(bytes).map_err(|e| format!("{e:#}")),
        6 => T::from_str(String::from_utf8_lossy(bytes), ".YAML").map_err(|e| format!("{e:#}")),
        7 => T::from_str(String::from_utf8_lossy(bytes), "json").map_err(|e| format!("{e:#}")),
        8 => T::from_reader(std::io::Cursor::new(bytes), ".bin").map_err(|e| format!("{e:#}")),
        9 => T::from_reader(std::io::Cursor::new(bytes), "YML").map_err(|e| format!("{e:#}")),
        f => {
            let p = tmp(ext_of(f, false));
            std::fs::write(&p, bytes).map_err(|e| e.to_string())?;
            let r = T::from_file(&p).map_err(|e| format!("{e:#}"));
            let _ = std::fs::remove_file(&p);
            r
        }
    }
}

/// does this instance leave out a field on output (`skip_serializing_if`)?  Found from its
/// own JSON image: the library uses the attribute on `state` (skipped when equal to the
/// default), `Link.osm_id`, `Heading.Lat/Lon` and `TrainConfig.cd_area_vec` (skipped when None)
fn has_skipped_field<T: Serialize>(x: &T) -> bool {
    fn walk(v: &Value, hit: &mut bool) {
        match v {
            Value::Object(o) => {
                let has = |k: &str| o.contains_key(k);
                let stateful = has("history") && (has("save_interval") || has("loco_vec") || has("speed_trace") || has("braking_points"));
                if stateful && !has("state") {
                    *hit = true;
                }
                if has("idx_curr") && has("idx_flip") && !has("osm_id") {
                    *hit = true;
                }
                if has("heading") && has("offset") && (!has("Lat") || !has("Lon")) {
                    *hit = true;
                }
                if has("n_cars_by_type") && !has("cd_area_vec") {
                    *hit = true;
                }
                o.values().for_each(|x| walk(x, hit));
            }
            Value::Array(a) => a.iter().for_each(|x| walk(x, hit)),
            _ => {}
        }
    }
    let mut hit = false;
    walk(&serde_json::to_value(x).unwrap_or(Value::Null), &mut hit);
    hit
}

/// root cause of a failed load, from the error text and the instance's features
fn cause<T: Serialize>(x: &T, fam: &str, err: &str) -> String {
    match fam {
        "bin" => {
            if err.contains("deserialize_any") {
                "deserialize_any-needed(Location.is_front_end)".into()
            } else if has_skipped_field(x) {
                "instance-has-skipped-field".into()
            } else {
                "plain".into()
            }
        }
        "json" => {
            if has_nonfinite(x) && (err.contains("null") || err.contains("expected f64")) {
                "non-finite-number-written-as-null".into()
            } else {
                "plain".into()
            }
        }
        _ => "plain".into(),
    }
}

fn has_nonfinite<T: Serialize>(x: &T) -> bool {
    // YAML keeps non-finite numbers distinguishable
    serde_yaml::to_string(x).map(|s| s.contains(".nan") || s.contains(".inf") || s.contains(".NaN") || s.contains("-.inf")).unwrap_or(false)
}

/// (a) + (b) for one object; returns the reloaded object
/// Settings other than the defaults: change scalar members of the object's own JSON image
/// (outside `state` / `history` and outside arrays), load the result through `from_json` — what
/// reading a user's file does, validation included — and send every object that loads through
/// the same round trip.  A setting that is dropped, or defaulted differently, on the way shows
/// as `object-changes-on-first-trip`.
fn mutated_trips<T: SerdeAPI + PartialEq + Serialize>(x: &T, case: &C17Case, fmt: u8, kind: &str, cx: &mut Ctx) {
    if case.mutate.is_empty() {
        return;
    }
    let Ok(img) = serde_json::to_value(x) else { return };
    fn leaves(v: &serde_json::Value, path: &mut Vec<String>, out: &mut Vec<(Vec<String>, bool)>) {
        if let serde_json::Value::Object(m) = v {
            for (k, c) in m {
                if k == "state" || k == "history" {
                    continue;
                }
                path.push(k.clone());
                match c {
                    serde_json::Value::Bool(_) => out.push((path.clone(), true)),
                    serde_json::Value::Number(_) => out.push((path.clone(), false)),
                    serde_json::Value::Object(_) => leaves(c, path, out),
                    _ => {}
                }
                path.pop();
            }
        }
    }
    let mut ls = vec![];
    leaves(&img, &mut vec![], &mut ls);
    for (choice, op) in &case.mutate {
        let want_bool = *op == 0;
        let cand: Vec<&(Vec<String>, bool)> = ls.iter().filter(|l| l.1 == want_bool).collect();
        if cand.is_empty() {
            continue;
        }
        let (path, _) = cand[(*choice as usize * cand.len()) >> 16];
        let mut m = img.clone();
        {
            let mut cur = &mut m;
            for k in path {
                cur = &mut cur[k.as_str()];
            }
            *cur = match (&*cur, op) {
                (serde_json::Value::Bool(b), _) => serde_json::Value::Bool(!b),
                (serde_json::Value::Number(_), 1) => serde_json::json!(0.0),
                (serde_json::Value::Number(n), _) => {
                    if n.is_f64() {
                        serde_json::json!(n.as_f64().unwrap_or(0.0) * 1.25)
                    } else {
                        serde_json::json!(n.as_u64().unwrap_or(0) + 1)
                    }
                }
                (o, _) => o.clone(),
            };
        }
        let what = format!("{}:{}", ["flip", "zero", "scale"][*op as usize % 3], path.join("."));
        match catch(|| T::from_json(m.to_string())) {
            Ok(Ok(y)) => {
                cx.label("changed_setting_loaded");
                cx.label(&format!("changed_setting:{}", ["bool_flipped", "number_zeroed", "number_scaled"][*op as usize % 3]));
                let before = cx.fails.len();
                let _ = round_trip(&y, fmt, &format!("{kind} with {what}"), cx);
                if cx.fails.len() > before {
                    cx.label("failure_on_changed_setting");
                }
            }
            Ok(Err(_)) => cx.label("changed_setting_rejected_on_load"),
            Err(_) => cx.label("changed_setting_unwinds_on_load"),
        }
    }
}

fn round_trip<T: SerdeAPI + PartialEq + Serialize>(x: &T, fmt: u8, kind: &str, cx: &mut Ctx) -> Option<T> {
    let f = FORMATS[fmt as usize % 12];
    let fam = ["yaml", "json", "bin"][fmt as usize % 3];
    let y1 = match catch(|| save(x, fmt)) {
        Err(p) => {
            cx.fail(format!("C17|panic|save:{fam}:{}", p.class()), format!("{kind} via {f}: {}", p.msg));
            return None;
        }
        Ok(Err(e)) => {
            let cause = if e.starts_with("OVERWRITE") { "overwriting-a-longer-file-leaves-old-bytes".to_string() } else { cause(x, fam, &e).to_string() };
            cx.fail(format!("C17|save|{fam}:{cause}"), format!("{kind} via {f}: {}", e.chars().take(300).collect::<String>()));
            return None;
        }
        Ok(Ok(b)) => b,
    };
    let x1: T = match catch(|| load::<T>(&y1, fmt)) {
        Err(p) => {
            cx.fail(format!("C17|panic|load:{fam}:{}", p.class()), format!("{kind} via {f}: {}", p.msg));
            return None;
        }
        Ok(Err(e)) => {
            let cause = cause(x, fam, &e);
            cx.fail(format!("C17|load|{fam}:{cause}"), format!("{kind} via {f} cannot be read back: {}", e.chars().take(300).collect::<String>()));
            return None;
        }
        Ok(Ok(v)) => v,
    };
    // first trip: the image of the reloaded object is the image that was saved (a setting that
    // is dropped or defaulted differently on the way shows here, before any step is taken)
    if let Err(d) = same_image_opts(x, &x1, fmt % 3 != 1) {
        cx.fail(format!("C17|drift|{fam}:object-changes-on-first-trip"), format!("{kind} via {f}: {d}"));
    }
    // second round trip: equal object, identical bytes
    let y2 = match save(&x1, fmt) {
        Ok(b) => b,
        Err(e) => {
            cx.fail(format!("C17|save|{fam}:second-trip"), format!("{kind} via {f}: {e}"));
            return Some(x1);
        }
    };
    match load::<T>(&y2, fmt) {
        Err(e) => cx.fail(format!("C17|load|{fam}:second-trip"), format!("{kind} via {f}: {}", e.chars().take(300).collect::<String>())),
        Ok(x2) => {
            // PartialEq is NaN-hostile and text is sensitive to HashMap iteration order: compare
            // the parsed YAML images (mappings unordered, numbers exact, NaN == NaN).  JSON may
            // move a number by parser rounding once more (1 ulp per trip is allowed)
            if let Err(d) = same_image_opts(&x1, &x2, fmt % 3 != 1) {
                cx.fail(format!("C17|drift|{fam}:object-changes-on-second-trip"), format!("{kind} via {f}: {d}"));
            }
        }
    }
    Some(x1)
}

/// is any saved front position of a train simulation within rounding of a catenary section
/// boundary of its path?
fn front_on_a_catenary_boundary<T: Serialize>(x: &T) -> bool {
    let Ok(v) = serde_json::to_value(x) else { return false };
    let offs: Vec<f64> = v["history"]["offset"].as_array().map(|a| a.iter().filter_map(|o| o.as_f64()).collect()).unwrap_or_default();
    let mut bounds = vec![];
    if let Some(cl) = v["path_tpc"]["cat_power_limits"].as_array() {
        for c in cl {
            bounds.extend(c["offset_start"].as_f64());
            bounds.extend(c["offset_end"].as_f64());
        }
    }
    offs.iter().any(|o| bounds.iter().any(|b| (o - b).abs() <= 1e-9 * b.abs().max(1.0)))
}

/// numbers within 1e-9 relative (JSON) or exact (YAML / binary)
fn same_image<T: Serialize>(a: &T, b: &T, fmt: u8) -> Result<(), String> {
    same_image_opts(a, b, fmt % 3 != 1)
}

fn same_image_opts<T: Serialize>(a: &T, b: &T, exact: bool) -> Result<(), String> {
    let (ya, yb) = (serde_yaml::to_string(a).unwrap_or_default(), serde_yaml::to_string(b).unwrap_or_default());
    if ya == yb {
        return Ok(());
    }
    fn cmp(a: &serde_yaml::Value, b: &serde_yaml::Value, path: &str, exact: bool) -> Result<(), String> {
        use serde_yaml::Value as Y;
        match (a, b) {
            (Y::Number(x), Y::Number(y)) => {
                let (x, y) = (x.as_f64().unwrap_or(f64::NAN), y.as_f64().unwrap_or(f64::NAN));
                if x == y || (x.is_nan() && y.is_nan()) || (!exact && (x - y).abs() <= 1e-9 * x.abs().max(y.abs()) + 1e-12) {
                    Ok(())
                } else {
                    Err(format!("{path}: {x} vs {y}"))
                }
            }
            (Y::Sequence(x), Y::Sequence(y)) => {
                if x.len() != y.len() {
                    return Err(format!("{path}: lengths {} vs {}", x.len(), y.len()));
                }
                // JSON: a column of numbers (history) is compared at the scale of the column:
                // entries that are differences of large terms carry the terms' rounding
                if !exact && x.iter().all(|v| matches!(v, Y::Number(_))) && y.iter().all(|v| matches!(v, Y::Number(_))) {
                    let f = |v: &Y| v.as_f64().unwrap_or(f64::NAN);
                    let scale = x.iter().chain(y.iter()).map(|v| f(v).abs()).filter(|v| v.is_finite()).fold(0.0, f64::max);
                    for (i, (p, q)) in x.iter().zip(y.iter()).enumerate() {
                        let (p, q) = (f(p), f(q));
                        if !(p == q || (p.is_nan() && q.is_nan()) || (p - q).abs() <= 1e-7 * scale + 1e-9) {
                            return Err(format!("{path}[{i}]: {p} vs {q} (column scale {scale})"));
                        }
                    }
                    return Ok(());
                }
                for (i, (p, q)) in x.iter().zip(y.iter()).enumerate() {
                    cmp(p, q, &format!("{path}[{i}]"), exact)?;
                }
                Ok(())
            }
            (Y::Mapping(x), Y::Mapping(y)) => {
                if x.len() != y.len() {
                    return Err(format!("{path}: key counts {} vs {}", x.len(), y.len()));
                }
                // JSON: scalars of one state struct are compared at the scale of the struct
                let scale = if exact { 0.0 } else { x.iter().chain(y.iter()).filter_map(|(_, v)| v.as_f64()).map(|v| v.abs()).filter(|v| v.is_finite()).fold(0.0, f64::max) };
                for (k, p) in x.iter() {
                    if let (false, Some(pf), Some(qf)) = (exact, p.as_f64(), y.get(k).and_then(|q| q.as_f64())) {
                        if pf == qf || (pf.is_nan() && qf.is_nan()) || (pf - qf).abs() <= 1e-7 * scale + 1e-9 {
                            continue;
                        }
                        return Err(format!("{path}.{}: {pf} vs {qf} (struct scale {scale})", k.as_str().unwrap_or("?")));
                    }
                    match y.get(k) {
                        Some(q) => cmp(p, q, &format!("{path}.{}", k.as_str().unwrap_or("?")), exact)?,
                        None => return Err(format!("{path}: key {k:?} missing")),
                    }
                }
                Ok(())
            }
            (p, q) => {
                if p == q {
                    Ok(())
                } else {
                    Err(format!("{path}: {p:?} vs {q:?}"))
                }
            }
        }
    }
    let (va, vb): (serde_yaml::Value, serde_yaml::Value) = (serde_yaml::from_str(&ya).map_err(|e| e.to_string())?, serde_yaml::from_str(&yb).map_err(|e| e.to_string())?);
    cmp(&va, &vb, "", exact)
}

/// checkpoint / resume: run `total` steps; checkpoint after `k` through the format
fn resume_check<T, F>(make: &dyn Fn() -> anyhow::Result<T>, step: F, k: usize, total: usize, fmt: u8, kind: &str, cx: &mut Ctx)
where
    T: SerdeAPI + PartialEq + Serialize,
    F: Fn(&mut T) -> anyhow::Result<()>,
{
    let fam = ["yaml", "json", "bin"][fmt as usize % 3];
    // an unwind out of a simulation step is another property's business (C03 / C05 …)
    let step = |x: &mut T| -> anyhow::Result<()> {
        match catch(|| step(x)) {
            Ok(r) => r,
            Err(p) => Err(anyhow::anyhow!("PANIC-IN-STEP {}", p.class())),
        }
    };
    let Ok(mut a) = make() else {
        cx.discard("sim_build_failed");
        return;
    };
    let Ok(mut b) = make() else { return };
    let mut done_a = 0;
    for _ in 0..total {
        if let Err(e) = step(&mut a) {
            if format!("{e}").contains("PANIC-IN-STEP") {
                cx.discard(&format!("panic_in_sim_step:{}", msg_class(&format!("{e}"), 60)));
                return;
            }
            break;
        }
        done_a += 1;
    }
    let k = k.min(done_a);
    for _ in 0..k {
        let _ = step(&mut b);
    }
    cx.count("checkpoint_step", k as u64);
    let Some(mut c) = round_trip(&b, fmt, kind, cx) else { return };
    for _ in k..done_a {
        if let Err(e) = step(&mut c) {
            if fam == "json" {
                // a number moved by parser rounding may flip an exact `<=` at a limit
                cx.label("json_resume_flipped_a_threshold");
                return;
            }
            cx.fail(format!("C17|diverge|{fam}:resumed-run-errs-where-original-did-not"), format!("{kind} checkpoint at {k} of {done_a}: {e:#}").chars().take(400).collect::<String>());
            return;
        }
    }
    // the step after the last successful one must fail in both (or neither)
    // the original made one more (failing) attempt, which leaves partial updates behind: the
    // resumed run makes the same attempt, and it must fail too
    if done_a < total {
        if step(&mut c).is_ok() {
            if fam == "json" {
                cx.label("json_resume_flipped_a_threshold");
                return;
            }
            cx.fail(format!("C17|diverge|{fam}:resumed-run-continues-where-original-stopped"), format!("{kind} checkpoint at {k}, original stopped after {done_a}"));
        }
    }
    if let Err(d) = same_image(&a, &c, fmt) {
        // JSON: the catenary limit is a step function of the front position compared exactly
        // with section boundaries; a saved position that sits on a boundary (grids of 0.1 m
        // make that common) may fall on the other side after parser rounding.  Like the
        // other threshold flips this is measured, not failed — but only when a saved front
        // position really is within rounding of a catenary boundary
        if fam == "json" && d.contains("pwr_cat_lim") && front_on_a_catenary_boundary(&a) {
            cx.label("json_resume_flipped_a_threshold");
            cx.label("json_resume_flipped_the_catenary_section_at_a_boundary");
        } else {
            cx.fail(format!("C17|diverge|{fam}:resumed-run-differs"), format!("{kind} checkpoint at step {k} of {done_a}: {d}").chars().take(500).collect::<String>());
        }
    }
    if k >= 1 {
        cx.nontrivial();
    }
}

/// the composition change of `C17Case::recompose`, applied before step `at` is taken
fn recompose(con: &mut Consist, i: usize, how: (u8, usize)) {
    if how.0 == 0 || i != how.1 {
        return;
    }
    let n = con.loco_vec.len();
    match how.0 {
        1 if n >= 2 => {
            let _ = con.drain_loco_vec(n - 1, n);
        }
        2 if n >= 2 => {
            con.loco_vec.pop();
        }
        3 if n >= 1 => {
            let mut v = con.loco_vec.clone();
            v.push(v[0].clone());
            con.set_loco_vec(v);
        }
        _ => {}
    }
}

fn u19_loco(case: &C17Case, which: usize) -> anyhow::Result<Locomotive> {
    match which {
        2 => Ok(Locomotive::default_hybrid_electric_loco()),
        3 => {
            let mut l = Locomotive::default();
            l.loco_type = PowertrainType::DummyLoco(DummyLoco::default());
            let mut v = serde_json::to_value(&l)?;
            v["mass"] = Value::Null;
            Ok(serde_json::from_value(v)?)
        }
        _ => {
            let want_bel = which == 1;
            let u = case.units.iter().find(|u| u.is_bel() == want_bel).or(case.units.first()).ok_or_else(|| anyhow::anyhow!("no unit"))?;
            build_unit(u, Some(1))
        }
    }
}

fn power_trace(case: &C17Case, scale: f64) -> PowerTrace {
    PowerTrace::new(case.trace.iter().map(|p| p.0).collect(), case.trace.iter().map(|p| p.1 * scale).collect(), case.trace.iter().map(|_| Some(true)).collect())
}

pub struct C17;
impl C17 {
    fn gen(g: &mut Gen, tier: Tier) -> C17Case {
        let kind = g.int(0, KINDS.len() as i64 - 1) as u8;
        let fmt = g.int(0, 11) as u8;
        let state = g.weighted(&[2, 3, 5]) as u8;
        let total = g.usize(5, 40);
        let k = g.usize(0, total);
        let mut units: Vec<UnitSpec> = (0..g.usize(1, 4)).map(|_| gen_unit(g, None)).collect();
        if !units.iter().any(|u| u.is_bel()) {
            units.push(gen_unit(g, Some(true)));
        }
        if !units.iter().any(|u| !u.is_bel()) {
            units.push(gen_unit(g, Some(false)));
        }
        for u in units.iter_mut() {
            if g.bool(0.7) {
                u.flatten_maps();
                u.harmonise_ratings();
            }
        }
        let mut t = 0.0;
        let mut trace = vec![(0.0, 0.0)];
        for _ in 0..total {
            t += Gen::round(g.f64(0.5, 3.0), 1);
            trace.push((Gen::round(t, 1), Gen::round(g.f64(-0.2, 0.45), 3)));
        }
        let train = match kind {
            13 | 10 | 17 | 16 | 15 | 18 | 21 | 23 | 31 | 19 | 20 | 25 | 28 => Some(gen_set_speed_case(g, tier, false)),
            14 | 22 | 24 => Some(gen_slts_case(g, tier, false)),
            // half of the Network instances are chain networks with the full link data
            // (elevation / heading points with coordinates, catenary sections that may touch
            // or have no extent, per-type speed sets) instead of a bare corridor
            26 if g.bool(0.5) => Some(gen_set_speed_case(g, tier, false)),
            _ => None,
        };
        // a fifth of the train cases carry a default hybrid locomotive as well
        let train = train.map(|mut t: TrainCase| {
            if !t.train.dummy && g.bool(0.2) {
                t.train.hybrids = 1;
            }
            t
        });
        let corridor = match kind {
            26 | 27 | 29 | 30 => Some(gen_dispatch_case(g, 2, &CorridorOpts { max_stages: 5, max_seg: 8000.0, p_branch: 0.3, p_bypass: 0.2, ..Default::default() })),
            _ => None,
        };
        let special = g.int(0, 3) as u8;
        let mutate = (0..g.weighted(&[5, 3, 2])).map(|_| (g.int(0, 65535) as u16, g.weighted(&[3, 1, 1]) as u8)).collect();
        let pdct = g.int(0, 1) as u8;
        let recompose = if g.bool(0.3) { (g.int(1, 3) as u8, g.usize(1, 25)) } else { (0, 0) };
        C17Case { kind, fmt, state, k, total, units, pdct, trace, train, corridor, special, mutate, recompose }
    }

    fn check(case: &C17Case, cx: &mut Ctx) {
        let kind = KINDS[case.kind as usize % KINDS.len()];
        let fmt = case.fmt % 12;
        cx.label(&format!("kind:{kind}"));
        cx.label(&format!("fmt:{}", FORMATS[fmt as usize]));
        cx.label(["state:default", "state:generated", "state:mid-run"][case.state as usize % 3]);
        let total_rating: f64 = case.units.iter().map(|u| crate::props::c19::U19::Spec(u.clone())).map(|u| match &u { U19::Spec(UnitSpec::Conv { fc, .. }) => fc.pwr_max, U19::Spec(UnitSpec::Bel { res, .. }) => res.pwr_max, _ => 0.0 }).sum();
        macro_rules! simple {
            ($v:expr) => {{
                let v = $v;
                if round_trip(&v, fmt, kind, cx).is_some() && case.state >= 1 {
                    cx.nontrivial();
                }
                mutated_trips(&v, case, fmt, kind, cx);
            }};
        }
        // save / load unwinds are caught (and reported) inside round_trip; anything else that
        // unwinds here comes out of a simulation step and belongs to C03 / C05
        let r: anyhow::Result<()> = match catch(|| -> anyhow::Result<()> {
            match case.kind {
                0..=3 => {
                    // component: default, generated, or taken out of a locomotive after k steps
                    let want_bel = case.kind == 3;
                    let mut loco = u19_loco(case, if want_bel { 1 } else { 0 })?;
                    if case.state == 0 {
                        match case.kind {
                            0 => simple!(altrios_core::prelude::FuelConverter::default()),
                            1 => simple!(altrios_core::prelude::Generator::default()),
                            2 => simple!(altrios_core::prelude::ElectricDrivetrain::default()),
                            _ => simple!(altrios_core::prelude::ReversibleEnergyStorage::default()),
                        }
                        return Ok(());
                    }
                    if case.state == 2 {
                        let mut sim = LocomotiveSimulation::new(loco.clone(), power_trace(case, rated_unit(&loco)), Some(1));
                        for _ in 0..case.k.min(case.total) {
                            if sim.i >= sim.power_trace.len() || sim.step().is_err() {
                                break;
                            }
                        }
                        loco = sim.loco_unit;
                    }
                    match (&loco.loco_type, case.kind) {
                        (PowertrainType::ConventionalLoco(c), 0) => simple!(c.fc.clone()),
                        (PowertrainType::ConventionalLoco(c), 1) => simple!(c.gen.clone()),
                        (PowertrainType::ConventionalLoco(c), 2) => simple!(c.edrv.clone()),
                        (PowertrainType::BatteryElectricLoco(b), 2) => simple!(b.edrv.clone()),
                        (PowertrainType::BatteryElectricLoco(b), 3) => simple!(b.res.clone()),
                        _ => cx.discard("component_not_in_unit"),
                    }
                }
                4..=7 => {
                    let which = (case.kind - 4) as usize;
                    let loco = if case.state == 0 && which == 0 { Locomotive::default() } else if case.state == 0 && which == 1 { Locomotive::default_battery_electric_loco() } else { u19_loco(case, which)? };
                    if case.state <= 1 {
                        simple!(loco);
                    } else {
                        let r = rated_unit(&loco);
                        resume_check(&|| Ok(LocomotiveSimulation::new(loco.clone(), power_trace(case, r), Some(1))), |s: &mut LocomotiveSimulation| if s.i < s.power_trace.len() { s.step() } else { Err(anyhow::anyhow!("end of trace")) }, case.k, case.total, fmt, kind, cx);
                    }
                }
                8 | 12 => {
                    let make_con = || -> anyhow::Result<Consist> {
                        if case.state == 0 {
                            Ok(Consist::default())
                        } else {
                            let mut c = build_consist(&case.units, case.pdct, Some(1))?;
                            // a non-default setting: limit assertions switched off (as the
                            // repository's calibration scripts do)
                            if case.special >= 2 {
                                c.set_assert_limits(false);
                            }
                            Ok(c)
                        }
                    };
                    if case.kind == 8 && case.state <= 1 {
                        simple!(make_con()?);
                    } else {
                        let scale = if case.state == 0 { 8.0e6 } else { total_rating * 0.8 };
                        resume_check(&|| Ok(ConsistSimulation::new(make_con()?, power_trace(case, scale), Some(1))), |s: &mut ConsistSimulation| if s.i < s.power_trace.len() { recompose(&mut s.loco_con, s.i, case.recompose); s.step() } else { Err(anyhow::anyhow!("end of trace")) }, case.k, case.total, fmt, kind, cx);
                        cx.label_if(case.recompose.0 > 0 && case.recompose.1 <= case.total, "consist_composition_changes_during_the_run");
                    }
                }
                9 => simple!(if case.state == 0 { PowerTrace::default() } else { power_trace(case, 1.0e6) }),
                11 => {
                    let loco = if case.state == 0 { Locomotive::default() } else { u19_loco(case, (case.special % 2) as usize)? };
                    let r = rated_unit(&loco);
                    resume_check(&|| Ok(LocomotiveSimulation::new(loco.clone(), power_trace(case, r), Some(1))), |s: &mut LocomotiveSimulation| if s.i < s.power_trace.len() { s.step() } else { Err(anyhow::anyhow!("end of trace")) }, case.k, case.total, fmt, kind, cx);
                }
                13 | 10 | 15 | 16 | 17 | 18 | 19 | 20 | 21 | 23 | 25 | 28 | 31 => {
                    let tc = case.train.as_ref().unwrap();
                    let net: Vec<Link> = build_chain(&tc.links);
                    let path: Vec<LinkIdx> = link_idxs(0..tc.links.len());
                    let tsb = tc.train.build_builder_init(Some(1), None, tc.trace.first().map(|p| p.1.max(0.0)))?;
                    let trace = SpeedTrace::new(tc.trace.iter().map(|x| x.0).collect(), tc.trace.iter().map(|x| x.1).collect(), None);
                    match case.kind {
                        10 => simple!(if case.state == 0 { SpeedTrace::default() } else { trace }),
                        15 => simple!(if case.state == 0 { RailVehicle::default() } else { tc.train.cars[0].build() }),
                        16 => simple!(if case.state == 0 { TrainConfig::valid_cfg() } else { tc.train.build_config()? }),
                        17 => simple!(if case.state == 0 { TrainSimBuilder::default() } else { tsb }),
                        18 => simple!(if case.state == 0 { TrainParams::default() } else { tc.train.params().build() }),
                        25 => simple!(if case.state == 0 { Link::default() } else { net[1 + case.k % (net.len() - 1)].clone() }),
                        28 => simple!(if case.state == 0 { LinkPath::default() } else { LinkPath(path.clone()) }),
                        31 => simple!(if case.state == 0 { InitTrainState::default() } else { InitTrainState::new(Some(altrios_core::uc::S * 12.5), Some(altrios_core::uc::M * 300.0), Some(altrios_core::uc::MPS * 3.0)) }),
                        19 | 20 => {
                            let mut p = PathTpc::new(tc.train.params().build());
                            if case.state >= 1 {
                                p.extend(&net, &path)?;
                            }
                            if case.kind == 20 {
                                if case.state == 0 {
                                    p.extend(&net, &path[..1])?;
                                }
                                p.finish();
                            }
                            simple!(p);
                        }
                        _ => {
                            let make = || -> anyhow::Result<SetSpeedTrainSim> {
                                if case.state == 0 {
                                    Ok(SetSpeedTrainSim::default())
                                } else {
                                    tsb.make_set_speed_train_sim(&net, &path, trace.clone(), Some(1))
                                }
                            };
                            match case.kind {
                                21 | 23 => {
                                    let mut s = make()?;
                                    if case.state == 2 {
                                        for _ in 0..case.k {
                                            if s.state.i >= s.speed_trace.len() || s.step().is_err() {
                                                break;
                                            }
                                        }
                                    }
                                    if case.kind == 21 {
                                        simple!(s.train_res.clone());
                                    } else {
                                        simple!(s.state);
                                    }
                                }
                                _ => resume_check(&make, |s: &mut SetSpeedTrainSim| if s.state.i < s.speed_trace.len() { recompose(&mut s.loco_con, s.state.i, case.recompose); s.step() } else { Err(anyhow::anyhow!("end of trace")) }, case.k, tc.trace.len().saturating_sub(1).min(case.total.max(5)), fmt, kind, cx),
                            }
                        }
                    }
                }
                14 | 22 | 24 => {
                    let tc = case.train.as_ref().unwrap();
                    let net: Vec<Link> = build_chain(&tc.links);
                    let n = tc.links.len();
                    let path: Vec<LinkIdx> = link_idxs(0..n);
                    let make = || -> anyhow::Result<SpeedLimitTrainSim> {
                        if case.state == 0 {
                            return Ok(SpeedLimitTrainSim::valid_sim());
                        }
                        let tsb = tc.train.build_builder(Some(1), Some(("A", "B")))?;
                        let mut lm: HashMap<String, Vec<Location>> = HashMap::new();
                        lm.insert("A".into(), vec![location("A", 1)]);
                        lm.insert("B".into(), vec![location("B", n as u32)]);
                        let mut sim = tsb.make_speed_limit_train_sim(&lm, Some(1), None, None)?;
                        if let Some((t, c)) = tc.brake_ramp_up {
                            sim.fric_brake.ramp_up_time = altrios_core::uc::S * t;
                            sim.fric_brake.ramp_up_coeff = altrios_core::uc::R * c;
                        }
                        sim.extend_path(&net, &path)?;
                        Ok(sim)
                    };
                    match case.kind {
                        14 => resume_check(&make, |s: &mut SpeedLimitTrainSim| s.step(), case.k * 8, case.total * 8, fmt, kind, cx),
                        22 => {
                            let mut s = make()?;
                            if case.state == 2 {
                                for _ in 0..case.k * 8 {
                                    if s.step().is_err() {
                                        break;
                                    }
                                }
                            }
                            simple!(s.fric_brake.clone());
                        }
                        _ => {
                            let s = make()?;
                            simple!(s.braking_points.clone());
                        }
                    }
                }
                _ => {
                    let dc = case.corridor.as_ref().unwrap();
                    let b = build(dc)?;
                    match case.kind {
                        26 => simple!(if case.state == 0 {
                            Network(vec![Link::default(), Link::valid_link()])
                        } else if let Some(tc) = case.train.as_ref() {
                            cx.label("network_with_full_link_data");
                            Network(build_chain(&tc.links))
                        } else {
                            Network(b.corridor.links.clone())
                        }),
                        27 => simple!(if case.state == 0 { Location::default() } else { b.slts[0].origs[0].clone() }),
                        _ => {
                            let est = match est_times_for(&b, 0) {
                                Ok(Ok((n, _))) => n,
                                _ => {
                                    cx.discard("est_times_unavailable");
                                    return Ok(());
                                }
                            };
                            if case.kind == 30 {
                                simple!(if case.state == 0 { altrios_core::meet_pass::est_times::EstTimeNet::default() } else { est });
                            } else {
                                // timed path from a one-train dispatch
                                let plan = altrios_core::meet_pass::dispatch::run_dispatch(&b.corridor.links, &b.slts[..1], vec![est], false, false)?;
                                simple!(if case.state == 0 { TimedLinkPath::default() } else { TimedLinkPath(plan[0].clone()) });
                            }
                        }
                    }
                }
            }
            Ok(())
        }) {
            Ok(r) => r,
            Err(p) => {
                cx.discard(&format!("panic_in_sim_step:{}", p.class()));
                return;
            }
        };
        if let Err(e) = r {
            cx.discard(&format!("build_err:{}", msg_class(&format!("{e:#}"), 40)));
        }
    }
}

fn rated_unit(l: &Locomotive) -> f64 {
    match &l.loco_type {
        PowertrainType::ConventionalLoco(c) => c.fc.pwr_out_max.value.min(c.gen.pwr_out_max.value).min(c.edrv.pwr_out_max.value),
        PowertrainType::BatteryElectricLoco(b) => b.res.pwr_out_max.value.min(b.edrv.pwr_out_max.value),
        _ => 2.0e6,
    }
}

// small helpers on foreign types
trait ValidCfg {
    fn valid_cfg() -> Self;
}
impl ValidCfg for TrainConfig {
    fn valid_cfg() -> Self {
        TrainConfig::default()
    }
}
trait ValidSim {
    fn valid_sim() -> Self;
}
impl ValidSim for SpeedLimitTrainSim {
    fn valid_sim() -> Self {
        let mut s = SpeedLimitTrainSim::default();
        s.set_save_interval(Some(1));
        let net = vec![Link::default(), Link::valid_link()];
        let _ = s.extend_path(&net, &[LinkIdx::new(1)]);
        s
    }
}
trait ValidLink {
    fn valid_link() -> Self;
}
impl ValidLink for Link {
    fn valid_link() -> Self {
        // the library's own "valid" example link (altrios_core::validate::Valid is public)
        <Link as altrios_core::validate::Valid>::valid()
    }
}

impl Property for C17 {
    fn id(&self) -> &'static str {
        "C17"
    }
    fn cases(&self, tier: Tier) -> usize {
        match tier {
            Tier::Quick => 12000,
            Tier::Thorough => 72000,
        }
    }
    fn tape_len(&self, _t: Tier) -> usize {
        12288
    }
    crate::typed_property!(C17, C17Case);
    fn rule(&self) -> String {
        format!("object kind in {:?} x format in {:?} x state in {{default, generated parameters, after k steps of a 5-40 step run}}; (a) save and load return Ok, (b) a second round trip yields an identical object image (parsed YAML, mappings unordered, numbers exact; JSON within parser rounding), (c)/(d) for locomotive / consist / set-speed / speed-limited simulations: checkpoint after a generated step index k through the format, resume, and compare the whole final object (histories included) with the uninterrupted run — byte-equal YAML image for YAML / binary, every number within 1e-9 relative (history columns: 1e-7 of the column's scale) for JSON; for YAML / binary a resumed run must fail exactly where the original failed. Non-trivial: generated or mid-run state that round-trips, or a checkpoint at k >= 1", KINDS, FORMATS)
    }
    fn assumptions(&self) -> Vec<String> {
        vec![
            "behavioural equivalence instead of structural equality with the original: `#[serde(skip)]` caches that are rebuilt lazily may legitimately differ".into(),
            "images are compared as YAML text (NaN-safe)".into(),
            "scratch files live under /verif/work/c17".into(),
        ]
    }
    fn panic_is_violation(&self) -> bool {
        true
    }
}
