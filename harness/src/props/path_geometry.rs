//! C06 — the path profile handed to the train model equals the network's geometry; one-shot
//! and incremental builds agree; non-contiguous routes are rejected.

use crate::engine::*;
use crate::gen::net_chain::*;
use crate::oracle::geometry;
use altrios_core::track::*;
use altrios_core::uc;
use serde::{Deserialize, Serialize};

#[derive(Serialize, Deserialize, Clone, Debug)]
pub struct GeoCase {
    pub tp: TrainParamSpec,
    pub links: Vec<LinkSpec>,
    /// optional alternate link parallel to chain position `alt_at` (0-based, interior)
    pub alt: Option<(usize, LinkSpec)>,
    pub use_alt: bool,
    pub partition: Vec<usize>,
    /// 0 none; 1 skip a link; 2 swap two neighbours; 3 repeat a link; 4 fake index 0 inside
    pub corrupt: u8,
    pub corrupt_at: usize,
}

fn build_net(case: &GeoCase) -> Vec<Link> {
    let mut net = build_chain(&case.links);
    if let Some((j, l)) = &case.alt {
        let n = case.links.len();
        let idx = n + 1; // new link index
        let mut extra = build_chain(std::slice::from_ref(l));
        let mut a = extra.remove(1);
        a.idx_curr = LinkIdx::new(idx as u32);
        a.idx_prev = LinkIdx::new(*j as u32); // chain position j is link j+1; its predecessor is link j
        a.idx_next = LinkIdx::new(*j as u32 + 2);
        net[*j].idx_next_alt = LinkIdx::new(idx as u32);
        net[*j + 2].idx_prev_alt = LinkIdx::new(idx as u32);
        net.push(a);
    }
    net
}

/// route as 1-based link indices and the specs along it
fn route(case: &GeoCase) -> (Vec<u32>, Vec<LinkSpec>) {
    let n = case.links.len();
    let mut idxs: Vec<u32> = (1..=n as u32).collect();
    let mut specs = case.links.clone();
    if let (Some((j, l)), true) = (&case.alt, case.use_alt) {
        idxs[*j] = n as u32 + 1;
        specs[*j] = l.clone();
    }
    (idxs, specs)
}

pub struct C06;
impl C06 {
    fn gen(g: &mut Gen, tier: Tier) -> GeoCase {
        let tp = gen_train_params(g);
        let o = ChainOpts { max_links: if tier == Tier::Thorough { 8 } else { 6 }, max_restr: 3, ..Default::default() };
        let links = gen_chain(g, &tp, &o);
        let n = links.len();
        let alt = if n >= 3 && g.bool(0.4) {
            let j = g.usize(1, n - 2);
            // continuous elevation with its neighbours is not needed for the path build
            let l = gen_link(g, &tp, links[j].elevs[0].1, &o);
            Some((j, l))
        } else {
            None
        };
        let use_alt = alt.is_some() && g.bool(0.6);
        let partition = gen_partition(g, n);
        let corrupt = if n >= 2 && g.bool(0.25) { g.int(1, 4) as u8 } else { 0 };
        let corrupt_at = g.idx(n.max(1));
        GeoCase { tp, links, alt, use_alt, partition, corrupt, corrupt_at }
    }

    fn check(case: &GeoCase, cx: &mut Ctx) {
        let net = build_net(case);
        let (mut idxs, specs) = route(case);
        let n = idxs.len();
        cx.label_if(case.alt.is_some(), "has_alternate_link");
        cx.label_if(case.use_alt, "route_via_alternate");
        cx.label_if(case.partition.len() > 1, "multi_extend");
        cx.label_if(specs.iter().any(|l| l.headings.is_empty()), "link_without_headings");
        cx.label_if(specs.iter().any(|l| !l.cats.is_empty()), "catenary");
        // ---- non-contiguous / invalid sequences must be rejected
        if case.corrupt != 0 {
            let at = case.corrupt_at.min(n - 1);
            let mut expect_err = true;
            match case.corrupt {
                1 => {
                    // skip an interior link (skipping an end keeps the route contiguous)
                    if at == 0 || at == n - 1 || n < 3 {
                        expect_err = false;
                    }
                    idxs.remove(at);
                }
                2 => {
                    let a = at.min(n - 2);
                    idxs.swap(a, a + 1);
                }
                3 => {
                    idxs.insert(at, idxs[at]);
                }
                _ => {
                    idxs.insert(at, 0);
                }
            }
            cx.label(&format!("corrupt_{}", case.corrupt));
            // feed it in extend calls of the generated sizes (last call takes the rest)
            let r = catch(|| {
                let mut path = PathTpc::new(case.tp.build());
                let mut k = 0usize;
                for (pi, sz) in case.partition.iter().enumerate() {
                    let end = if pi + 1 == case.partition.len() { idxs.len() } else { (k + sz).min(idxs.len()) };
                    let chunk: Vec<LinkIdx> = idxs[k..end].iter().map(|i| LinkIdx::new(*i)).collect();
                    path.extend(&net, chunk)?;
                    k = end;
                }
                anyhow::Ok(path)
            });
            match r {
                Err(p) => cx.fail(format!("C06|panic|{}", p.class()), format!("extend unwound on route {idxs:?}: {} at {}:{}", p.msg, p.file, p.line)),
                Ok(Ok(_)) if expect_err => cx.fail(format!("C06|accept|non-contiguous-route-accepted:{}", case.corrupt), format!("route {idxs:?} (corruption {}) was accepted", case.corrupt)),
                Ok(Err(e)) if !expect_err => cx.fail("C06|reject|contiguous-route-rejected", format!("route {idxs:?}: {e:#}")),
                _ => {}
            }
            if expect_err {
                cx.nontrivial();
            }
            return;
        }
        // ---- build with the generated partition and in one shot
        let build = |parts: &[usize]| -> Result<PathTpc, String> {
            let mut path = PathTpc::new(case.tp.build());
            let mut k = 0usize;
            for sz in parts {
                let chunk: Vec<LinkIdx> = idxs[k..k + sz].iter().map(|i| LinkIdx::new(*i)).collect();
                path.extend(&net, chunk).map_err(|e| format!("{e:#}"))?;
                k += sz;
            }
            Ok(path)
        };
        let path = match catch(|| build(&case.partition)) {
            Err(p) => {
                cx.fail(format!("C06|panic|{}", p.class()), format!("extend unwound: {} at {}:{}", p.msg, p.file, p.line));
                return;
            }
            Ok(Err(e)) => {
                cx.fail("C06|reject|contiguous-route-rejected", format!("route {idxs:?}: {e}"));
                return;
            }
            Ok(Ok(p)) => p,
        };
        if case.partition.len() > 1 {
            match catch(|| build(&[n])) {
                Ok(Ok(one)) => {
                    if one != path {
                        let which = if one.link_points() != path.link_points() {
                            "link_points"
                        } else if one.grades() != path.grades() {
                            "grades"
                        } else if one.curves() != path.curves() {
                            "curves"
                        } else if one.cat_power_limits() != path.cat_power_limits() {
                            "cat_power_limits"
                        } else {
                            "speed_points"
                        };
                        cx.fail(format!("C06|diff|one-shot!=incremental:{which}"), format!("partition {:?} gives a different profile than one extend call ({which})", case.partition));
                    }
                }
                Ok(Err(e)) => cx.fail("C06|reject|one-shot-rejected", e),
                Err(p) => cx.fail(format!("C06|panic|{}", p.class()), p.msg),
            }
        }
        // ---- link points
        let b = geometry::bases(&specs);
        let lp = path.link_points();
        if lp.len() != n + 1 {
            cx.fail("C06|link_points|count", format!("{} link points for {n} links", lp.len()));
            return;
        }
        for j in 0..=n {
            if !crate::props::train_run::relclose(lp[j].offset.value, b[j], 1e-12, 1e-9) {
                cx.fail("C06|link_points|offset!=cumulative-length", format!("link point {j}: offset {} vs {}", lp[j].offset.value, b[j]));
            }
            let want = if j < n { idxs[j] } else { 0 };
            if lp[j].link_idx.idx() as u32 != want {
                cx.fail("C06|link_points|link_idx", format!("link point {j}: link {} vs route {want}", lp[j].link_idx.idx()));
            }
        }
        // ---- grades: structure and values from the network's own points
        let elev = geometry::elevation(&specs);
        let gr = path.grades();
        let want_pts = &elev.pts;
        if gr.len() != want_pts.len() {
            cx.fail("C06|grades|count", format!("{} grade points vs {} network elevation points along the route", gr.len(), want_pts.len()));
        } else {
            for (i, (gp, wp)) in gr.iter().zip(want_pts.iter()).enumerate() {
                if !crate::props::train_run::relclose(gp.offset.value, wp.0, 1e-12, 1e-9) {
                    cx.fail("C06|grades|offset", format!("grade point {i}: offset {} vs {}", gp.offset.value, wp.0));
                }
                if !crate::props::train_run::relclose(gp.res_net.value, wp.1, 1e-12, 1e-9) {
                    cx.fail("C06|grades|elevation", format!("grade point {i} at {}: elevation {} vs network {}", wp.0, gp.res_net.value, wp.1));
                }
                let slope = if i + 1 < want_pts.len() { (want_pts[i + 1].1 - wp.1) / (want_pts[i + 1].0 - wp.0) } else { 0.0 };
                if !crate::props::train_run::relclose(gp.res_coeff.value, slope, 1e-9, 1e-12) {
                    cx.fail("C06|grades|slope", format!("grade point {i} at {}: coefficient {} vs slope of the network points {slope}", wp.0, gp.res_coeff.value));
                }
            }
            // elevation at sample positions through the profile's own evaluation rule
            let end = *b.last().unwrap();
            for k in 0..=64 {
                let x = end * k as f64 / 64.0;
                let mut i = 0;
                while i + 1 < gr.len() && gr[i + 1].offset.value <= x {
                    i += 1;
                }
                let e = gr[i].calc_res_val(uc::M * x).value;
                if !crate::props::train_run::relclose(e, elev.eval(x), 1e-12, 1e-8) {
                    cx.fail("C06|grades|elevation-at-position", format!("x={x}: profile elevation {e} vs walk of network points {}", elev.eval(x)));
                }
            }
        }
        // ---- curves
        let curve = geometry::curve(&specs, &case.tp);
        let cu = path.curves();
        if cu.len() != curve.pts.len() {
            cx.fail("C06|curves|count", format!("{} curve points vs {} expected", cu.len(), curve.pts.len()));
        } else {
            for (i, (cp, wp)) in cu.iter().zip(curve.pts.iter()).enumerate() {
                if !crate::props::train_run::relclose(cp.offset.value, wp.0, 1e-12, 1e-9) {
                    cx.fail("C06|curves|offset", format!("curve point {i}: offset {} vs {}", cp.offset.value, wp.0));
                }
                if !crate::props::train_run::relclose(cp.res_net.value, wp.1, 1e-9, 1e-12) {
                    cx.fail("C06|curves|cumulative", format!("curve point {i} at {}: cumulative {} vs {}", wp.0, cp.res_net.value, wp.1));
                }
                let coeff = if i + 1 < curve.pts.len() { (curve.pts[i + 1].1 - wp.1) / (curve.pts[i + 1].0 - wp.0) } else { 0.0 };
                if !crate::props::train_run::relclose(cp.res_coeff.value, coeff, 1e-9, 1e-12) {
                    cx.fail("C06|curves|coefficient", format!("curve point {i} at {}: coefficient {} vs heading-change rate formula {coeff}", wp.0, cp.res_coeff.value));
                }
            }
        }
        // mirror image of the route (all headings negated) has the same curve resistance
        {
            let mut mspecs = case.clone();
            let mirror = |l: &mut LinkSpec| {
                for h in l.headings.iter_mut() {
                    let m = (geometry::REV - h.1).rem_euclid(geometry::REV);
                    h.1 = if m >= 6.283185 { 0.0 } else { m };
                }
            };
            mspecs.links.iter_mut().for_each(mirror);
            if let Some((_, l)) = mspecs.alt.as_mut() {
                mirror(l);
            }
            let mnet = build_net(&mspecs);
            let r = catch(|| {
                let mut p = PathTpc::new(case.tp.build());
                p.extend(&mnet, idxs.iter().map(|i| LinkIdx::new(*i)).collect::<Vec<_>>()).map(|_| p)
            });
            if let Ok(Ok(mp)) = r {
                for (i, (a, m)) in cu.iter().zip(mp.curves().iter()).enumerate() {
                    if !crate::props::train_run::relclose(a.res_coeff.value, m.res_coeff.value, 1e-6, 1e-12) {
                        cx.fail("C06|curves|mirror-image-differs", format!("curve point {i}: coefficient {} vs {} on the mirrored route", a.res_coeff.value, m.res_coeff.value));
                    }
                }
            }
        }
        // ---- catenary sections shifted by the link's base offset
        let mut want_cat: Vec<(f64, f64, f64)> = vec![];
        for (j, l) in specs.iter().enumerate() {
            for c in &l.cats {
                want_cat.push((b[j] + c.0, b[j] + c.1, c.2));
            }
        }
        let got_cat: Vec<(f64, f64, f64)> = path.cat_power_limits().iter().map(|c| (c.offset_start.value, c.offset_end.value, c.power_limit.value)).collect();
        if got_cat.len() != want_cat.len() || got_cat.iter().zip(want_cat.iter()).any(|(a, w)| !crate::props::train_run::relclose(a.0, w.0, 1e-12, 1e-9) || !crate::props::train_run::relclose(a.1, w.1, 1e-12, 1e-9) || a.2 != w.2) {
            cx.fail("C06|catenary|not-shifted-by-base", format!("got {got_cat:?} want {want_cat:?}"));
        }
        // ---- index counts
        let (mut gc, mut cc, mut kc) = (0usize, 0usize, 0usize);
        for j in 0..n {
            let l = &specs[j];
            let wg = l.elevs.len().max(2) - 1;
            let wc = l.headings.len().max(2) - 1;
            if lp[j].grade_count != wg || lp[j].curve_count != wc || lp[j].cat_power_count != l.cats.len() {
                cx.fail("C06|counts|per-link", format!("link point {j}: counts ({}, {}, {}) vs ({wg}, {wc}, {})", lp[j].grade_count, lp[j].curve_count, lp[j].cat_power_count, l.cats.len()));
            }
            if gc < gr.len() && !crate::props::train_run::relclose(gr[gc].offset.value, b[j], 1e-12, 1e-9) {
                cx.fail("C06|counts|grade-index-not-at-link-start", format!("link {j}: grades[{gc}].offset {} vs link start {}", gr[gc].offset.value, b[j]));
            }
            if cc < cu.len() && !crate::props::train_run::relclose(cu[cc].offset.value, b[j], 1e-12, 1e-9) {
                cx.fail("C06|counts|curve-index-not-at-link-start", format!("link {j}: curves[{cc}].offset {} vs link start {}", cu[cc].offset.value, b[j]));
            }
            gc += lp[j].grade_count;
            cc += lp[j].curve_count;
            kc += lp[j].cat_power_count;
        }
        if gc + 1 != gr.len() || cc + 1 != cu.len() || kc != path.cat_power_limits().len() {
            cx.fail("C06|counts|totals", format!("sum of counts ({gc}, {cc}, {kc}) vs lengths ({}, {}, {})", gr.len(), cu.len(), path.cat_power_limits().len()));
        }
        // the code's own validator (prints to stdout; recorded, not asserted: it compares
        // floats for exact equality)
        if let Ok(v) = catch(|| altrios_core::validate::ObjState::validate(&path)) {
            cx.label(if v.is_ok() { "own_validate_ok" } else { "own_validate_err" });
        }
        let rich = specs.iter().any(|l| l.elevs.len() >= 3);
        if n >= 2 && rich && case.partition.len() >= 2 {
            cx.nontrivial();
        }
    }
}

impl Property for C06 {
    fn id(&self) -> &'static str {
        "C06"
    }
    fn cases(&self, tier: Tier) -> usize {
        match tier {
            Tier::Quick => 40000,
            Tier::Thorough => 240000,
        }
    }
    fn tape_len(&self, _t: Tier) -> usize {
        3072
    }
    crate::typed_property!(C06, GeoCase);
    fn rule(&self) -> String {
        "chain of 1-6 (thorough 1-8) links with 2-7 elevation points, 0 or 2-6 heading points (incl. wrap-around and big jumps), 0-3 catenary sections, optional alternate link reached through idx_next_alt/idx_prev_alt, random composition into extend calls; 25 % of cases corrupt the route (skip / swap / repeat / fake index) and must be rejected without unwinding. Oracle: link points == cumulative lengths + route, grade points == the network's own elevation points (offset, elevation, slope), elevation at 65 positions, curve points == documented piecewise polynomial of |wrapped heading change|/distance, mirror-image route gives identical curve coefficients, catenary shifted by base, per-link counts and count-indexed offsets, one-shot build == incremental build (PartialEq). Non-trivial: >= 2 links, a link with >= 3 elevation points and >= 2 extend calls, or a corrupted route that must be rejected".into()
    }
    fn assumptions(&self) -> Vec<String> {
        vec![
            "elevations are continuous across junctions (generator), so 'walking the route's own elevation points' is unambiguous".into(),
            "link indices inside the network; out-of-range indices are C16's business".into(),
            "values compared with 1e-9 relative tolerance (slopes, coefficients) / 1e-12 (offsets, elevations)".into(),
        ]
    }
    fn panic_is_violation(&self) -> bool {
        true
    }
}
