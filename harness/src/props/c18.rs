//! C18 — results are deterministic and independent of thread scheduling.
//!
//! (i) every scenario kind is run twice on equal inputs, the second time on a fresh thread
//! (fresh per-thread hash keys, after a varying amount of hashing activity); outputs must be
//! identical.  (ii) a batch of different locomotive simulations is walked serially and in
//! rayon pools of 1..16 workers, repeatedly; every element must equal its solo result, and an
//! injected failing element must be the one reported while all other elements' inputs stay
//! untouched.

use crate::engine::*;
use crate::gen::net_chain::*;
use crate::gen::net_corridor::*;
use crate::gen::powertrain::*;
use crate::props::corridor::*;
use crate::props::slts::gen_slts_case;
use crate::props::speed_profile::{build_path, gen_speed_case, SpeedCase};
use crate::props::train_run::*;
use altrios_core::consist::consist_sim::ConsistSimulation;
use altrios_core::consist::locomotive::loco_sim::{LocomotiveSimulation, LocomotiveSimulationVec, PowerTrace};
use altrios_core::meet_pass::dispatch::run_dispatch;
use altrios_core::track::{Link, LinkIdx, Location};
use altrios_core::train::SpeedTrace;
use serde::{Deserialize, Serialize};
use serde_json::Value;
use std::collections::HashMap;

#[derive(Serialize, Deserialize, Clone, Debug)]
pub struct C18Case {
    /// 0 locomotive sim, 1 consist sim, 2 set-speed, 3 speed-limited, 4 est times, 5 dispatch,
    /// 6 path profile build, 7 train params / builder parts, 8 parallel batch
    pub kind: u8,
    pub units: Vec<UnitSpec>,
    pub pdct: u8,
    pub trace: Vec<(f64, f64)>,
    pub train: Option<TrainCase>,
    pub corridor: Option<DispatchCase>,
    pub speed: Option<SpeedCase>,
    /// batch: per element (unit index, power scale, failing)
    pub batch: Vec<(usize, f64, bool)>,
    pub hash_noise: usize,
    /// batch: elements whose power trace is cut to its first sample only (nothing to walk: the
    /// serial walk still records the initial state), and whether the whole batch is walked a
    /// second time after it has finished
    #[serde(default)]
    pub one_sample: Vec<usize>,
    #[serde(default)]
    pub walk_twice: bool,
    /// also run once in a fresh process (other address-space layout, other process-wide
    /// hash seeds, cold lazy statics) and compare the printed outputs character by character
    #[serde(default)]
    pub other_process: bool,
    /// the first unit is built so that the first table lookup of a run falls exactly on an
    /// interior breakpoint of a non-flat map
    #[serde(default)]
    pub first_lookup_on_breakpoint: Option<usize>,
}

/// `vcheck c18-once <casefile>`: run the scenario once and print its complete output
pub fn once_main(file: &str) -> i32 {
    crate::engine::install_panic_hook();
    let txt = std::fs::read_to_string(file).expect("case file");
    let case: C18Case = serde_json::from_str(&txt).expect("case parses");
    match catch(|| run_once(&case)) {
        Ok(Ok(v)) => println!("OUTPUT {v}"),
        Ok(Err(e)) => println!("ERR {}", e.replace('\n', " ")),
        Err(p) => println!("PANIC {}", p.msg.replace('\n', " ")),
    }
    0
}

fn run_in_child(case: &C18Case) -> Option<String> {
    let dir = std::path::Path::new(crate::engine::run::VERIF_ROOT).join("work").join("probe");
    let _ = std::fs::create_dir_all(&dir);
    let txt = serde_json::to_string(case).ok()?;
    let f = dir.join(format!("c18-{}-{:016x}.json", std::process::id(), fnv64(&txt)));
    std::fs::write(&f, &txt).ok()?;
    let out = std::process::Command::new(crate::engine::run::self_exe()).args(["c18-once", f.to_str()?]).stderr(std::process::Stdio::null()).output().ok();
    let _ = std::fs::remove_file(&f);
    let out = out?;
    if !out.status.success() {
        return None;
    }
    String::from_utf8(out.stdout).ok().map(|s| s.trim().to_string())
}

fn ptrace(trace: &[(f64, f64)], scale: f64) -> PowerTrace {
    PowerTrace::new(trace.iter().map(|p| p.0).collect(), trace.iter().map(|p| p.1 * scale).collect(), trace.iter().map(|_| Some(true)).collect())
}

fn unit_rating(u: &UnitSpec) -> f64 {
    match u {
        UnitSpec::Conv { fc, gen, edrv, .. } => fc.pwr_max.min(gen.pwr_max).min(edrv.pwr_max),
        UnitSpec::Bel { res, edrv, .. } => res.pwr_max.min(edrv.pwr_max),
    }
}

/// run the scenario once, return its outputs as a JSON value (maps sorted, numbers as f64)
fn run_once(case: &C18Case) -> Result<Value, String> {
    let e = |x: anyhow::Error| format!("{x:#}");
    match case.kind {
        0 => {
            let loco = build_unit(&case.units[0], Some(1)).map_err(e)?;
            let mut sim = LocomotiveSimulation::new(loco, ptrace(&case.trace, unit_rating(&case.units[0])), Some(1));
            let r = sim.walk().map_err(|x| format!("{x:#}"));
            Ok(serde_json::json!({"result": r.err(), "sim": serde_json::to_value(&sim).map_err(|x| x.to_string())?}))
        }
        1 => {
            let con = build_consist(&case.units, case.pdct, Some(1)).map_err(e)?;
            let total: f64 = case.units.iter().map(unit_rating).sum();
            let mut sim = ConsistSimulation::new(con, ptrace(&case.trace, total * 0.8), Some(1));
            let r = sim.walk().map_err(|x| format!("{x:#}"));
            Ok(serde_json::json!({"result": r.err(), "sim": serde_json::to_value(&sim).map_err(|x| x.to_string())?}))
        }
        2 => {
            let tc = case.train.as_ref().unwrap();
            let net: Vec<Link> = build_chain(&tc.links);
            let path: Vec<LinkIdx> = link_idxs(0..tc.links.len());
            let tsb = tc.train.build_builder_init(Some(1), None, tc.trace.first().map(|p| p.1.max(0.0))).map_err(e)?;
            let trace = SpeedTrace::new(tc.trace.iter().map(|x| x.0).collect(), tc.trace.iter().map(|x| x.1).collect(), None);
            let mut sim = tsb.make_set_speed_train_sim(&net, &path, trace, Some(1)).map_err(e)?;
            let r = sim.walk().map_err(|x| format!("{x:#}"));
            Ok(serde_json::json!({"result": r.err(), "sim": serde_json::to_value(&sim).map_err(|x| x.to_string())?}))
        }
        3 => {
            let tc = case.train.as_ref().unwrap();
            let net: Vec<Link> = build_chain(&tc.links);
            let n = tc.links.len();
            let path: Vec<LinkIdx> = link_idxs(0..n);
            let tsb = tc.train.build_builder(Some(1), Some(("A", "B"))).map_err(e)?;
            let mut lm: HashMap<String, Vec<Location>> = HashMap::new();
            lm.insert("A".into(), vec![location("A", 1)]);
            lm.insert("B".into(), vec![location("B", n as u32)]);
            let mut sim = tsb.make_speed_limit_train_sim(&lm, Some(1), None, None).map_err(e)?;
            if let Some((t, c)) = tc.brake_ramp_up {
                sim.fric_brake.ramp_up_time = altrios_core::uc::S * t;
                sim.fric_brake.ramp_up_coeff = altrios_core::uc::R * c;
            }
            let mut started = false;
            let r = slts_schedule(&mut sim, tc, &net, &path, false, &mut started).map_err(|x| format!("{x:#}"));
            Ok(serde_json::json!({"result": r.err(), "sim": serde_json::to_value(&sim).map_err(|x| x.to_string())?}))
        }
        4 | 5 => {
            let dc = case.corridor.as_ref().unwrap();
            let b = build(dc).map_err(e)?;
            let mut nets = vec![];
            let mut slts = vec![];
            let mut errs = vec![];
            for i in 0..dc.trains.len() {
                match altrios_core::meet_pass::est_times::make_est_times(b.slts[i].clone(), &b.corridor.links) {
                    Ok((n, c)) => {
                        if case.kind == 4 {
                            errs.push(serde_json::to_value(&c).unwrap_or(Value::Null));
                        }
                        nets.push(n);
                        slts.push(b.slts[i].clone());
                    }
                    Err(x) => errs.push(Value::String(format!("{x:#}"))),
                }
            }
            if case.kind == 4 {
                return Ok(serde_json::json!({"nets": serde_json::to_value(&nets).map_err(|x| x.to_string())?, "other": errs}));
            }
            let plan = run_dispatch(&b.corridor.links, &slts, nets, false, false).map_err(|x| format!("{x:#}"));
            Ok(match plan {
                Ok(p) => serde_json::json!({"plan": serde_json::to_value(&p).map_err(|x| x.to_string())?}),
                Err(x) => serde_json::json!({"err": x}),
            })
        }
        6 => {
            let sc = case.speed.as_ref().unwrap();
            let p = build_path(sc, &sc.partition)?;
            serde_json::to_value(&p).map_err(|x| x.to_string())
        }
        7 => {
            let tc = case.train.as_ref().unwrap();
            let cfg = tc.train.build_config().map_err(e)?;
            let tp = cfg.make_train_params().map_err(e)?;
            let net: Vec<Link> = build_chain(&tc.links);
            let path: Vec<LinkIdx> = link_idxs(0..tc.links.len());
            let tsb = tc.train.build_builder(None, None).map_err(e)?;
            let trace = SpeedTrace::new(vec![0.0, 1.0], vec![0.0, 0.0], None);
            let (sim, tp2, path_tpc, res, fb) = tsb.make_set_speed_train_sim_and_parts(&net, &path, trace, None).map_err(e)?;
            Ok(serde_json::json!({
                "tp": serde_json::to_value(&tp).map_err(|x| x.to_string())?,
                "tp2": serde_json::to_value(&tp2).map_err(|x| x.to_string())?,
                "path": serde_json::to_value(&path_tpc).map_err(|x| x.to_string())?,
                "res": serde_json::to_value(&res).map_err(|x| x.to_string())?,
                "fb": serde_json::to_value(&fb).map_err(|x| x.to_string())?,
                "state": serde_json::to_value(&sim.state).map_err(|x| x.to_string())?,
            }))
        }
        _ => Err("batch is handled separately".into()),
    }
}

fn first_diff(a: &Value, b: &Value, path: &str) -> Option<String> {
    match (a, b) {
        (Value::Object(x), Value::Object(y)) => {
            if x.len() != y.len() {
                return Some(format!("{path}: {} vs {} keys", x.len(), y.len()));
            }
            for (k, p) in x {
                match y.get(k) {
                    Some(q) => {
                        if let Some(d) = first_diff(p, q, &format!("{path}.{k}")) {
                            return Some(d);
                        }
                    }
                    None => return Some(format!("{path}.{k} missing")),
                }
            }
            None
        }
        (Value::Array(x), Value::Array(y)) => {
            if x.len() != y.len() {
                return Some(format!("{path}: lengths {} vs {}", x.len(), y.len()));
            }
            for (i, (p, q)) in x.iter().zip(y.iter()).enumerate() {
                if let Some(d) = first_diff(p, q, &format!("{path}[{i}]")) {
                    return Some(d);
                }
            }
            None
        }
        (p, q) => {
            if p == q {
                None
            } else {
                Some(format!("{path}: {p} vs {q}"))
            }
        }
    }
}

fn build_batch(case: &C18Case) -> anyhow::Result<Vec<LocomotiveSimulation>> {
    let mut v = vec![];
    for (ui, scale, failing) in &case.batch {
        let u = &case.units[*ui % case.units.len()];
        let loco = build_unit(u, Some(1))?;
        let mut tr = ptrace(&case.trace, unit_rating(u) * scale);
        if case.one_sample.contains(&v.len()) {
            tr = ptrace(&case.trace[..1], unit_rating(u) * scale);
        }
        if *failing && tr.pwr.len() > 1 {
            // an inadmissible demand in the middle of the trace
            let m = tr.pwr.len() / 2;
            tr.pwr[m] = altrios_core::uc::W * unit_rating(u) * 3.0;
        }
        v.push(LocomotiveSimulation::new(loco, tr, Some(1)));
    }
    Ok(v)
}

fn check_batch(case: &C18Case, cx: &mut Ctx) {
    let base = match build_batch(case) {
        Ok(b) => b,
        Err(e) => {
            cx.discard(&format!("build_err:{}", msg_class(&format!("{e:#}"), 40)));
            return;
        }
    };
    let img = |s: &LocomotiveSimulation| serde_json::to_value(s).unwrap_or(Value::Null);
    let all_first_ok = base.iter().all(|s| s.clone().walk().is_ok());
    // solo reference per element
    let solo: Vec<(Value, bool)> = base
        .iter()
        .map(|s| {
            let mut c = s.clone();
            let ok = c.walk().is_ok();
            (c, ok)
        })
        .map(|(mut c, ok)| {
            // the batch is walked a second time only when its first walk succeeded, i.e. when
            // no element fails: the solo reference does the same
            if case.walk_twice && all_first_ok {
                let ok2 = c.walk().is_ok();
                return (img(&c), ok && ok2);
            }
            (img(&c), ok)
        })
        .collect();
    cx.label_if(case.walk_twice, "batch_walked_a_second_time");
    cx.label_if(!case.one_sample.is_empty(), "batch_element_with_a_single_sample_trace");
    let untouched: Vec<Value> = base.iter().map(img).collect();
    let any_fail = solo.iter().any(|s| !s.1);
    cx.label_if(any_fail, "batch_with_failing_element");
    let distinct = solo.iter().map(|s| fnv64(&s.0.to_string())).collect::<std::collections::BTreeSet<_>>().len();
    let mut max_p = 0;
    let mut runs = 0u64;
    let mut check = |v: &LocomotiveSimulationVec, r: &anyhow::Result<()>, how: &str, cx: &mut Ctx| {
        match r {
            Ok(()) => {
                if any_fail {
                    cx.fail("C18|batch|failing-element-not-reported", format!("{how}: walk returned Ok although an element fails solo"));
                }
                for (i, s) in v.0.iter().enumerate() {
                    if let Some(d) = first_diff(&img(s), &solo[i].0, "") {
                        cx.fail("C18|batch|element-differs-from-solo-walk", format!("{how}: element {i}: {d}"));
                    }
                }
            }
            Err(e) => {
                let txt = format!("{e:#}");
                let named: Option<usize> = txt.split("loco_sim idx:").nth(1).and_then(|t| t.trim().split(|c: char| !c.is_ascii_digit()).next().and_then(|n| n.parse().ok()));
                match named {
                    None => cx.fail("C18|batch|error-does-not-name-an-element", format!("{how}: {}", txt.chars().take(200).collect::<String>())),
                    Some(i) => {
                        if i >= solo.len() || solo[i].1 {
                            cx.fail("C18|batch|error-names-an-element-that-does-not-fail", format!("{how}: reported idx {i}"));
                        }
                    }
                }
                if !any_fail {
                    cx.fail("C18|batch|error-although-every-element-succeeds-solo", format!("{how}: {}", txt.chars().take(200).collect::<String>()));
                }
                // every element is either untouched, or equal to its solo outcome; inputs intact
                for (i, s) in v.0.iter().enumerate() {
                    let im = img(s);
                    if first_diff(&im, &solo[i].0, "").is_some() && first_diff(&im, &untouched[i], "").is_some() {
                        cx.fail("C18|batch|element-neither-untouched-nor-equal-to-solo", format!("{how}: element {i}: {:?}", first_diff(&im, &solo[i].0, "")));
                    }
                    if im["power_trace"] != untouched[i]["power_trace"] {
                        cx.fail("C18|batch|input-trace-altered", format!("{how}: element {i}"));
                    }
                }
            }
        }
    };
    // serial
    {
        let mut v = LocomotiveSimulationVec(base.clone());
        let mut r = v.walk(false);
        if case.walk_twice && r.is_ok() {
            r = v.walk(false);
        }
        check(&v, &r, "serial", cx);
        runs += 1;
    }
    for p in [1usize, 2, 3, 5, 8, 16] {
        let pool = match rayon::ThreadPoolBuilder::new().num_threads(p).build() {
            Ok(p) => p,
            Err(_) => continue,
        };
        for rep in 0..3 {
            let mut v = LocomotiveSimulationVec(base.clone());
            let mut r = pool.install(|| v.walk(true));
            if case.walk_twice && r.is_ok() {
                r = pool.install(|| v.walk(true));
            }
            check(&v, &r, &format!("parallel p={p} rep={rep}"), cx);
            runs += 1;
        }
        max_p = max_p.max(p);
    }
    cx.count("batch_walks", runs);
    cx.label_if(distinct >= 3, "batch_with_3+_distinct_elements");
    if distinct >= 3 && max_p >= 2 {
        cx.nontrivial();
    }
}

pub struct C18;
impl C18 {
    fn gen(g: &mut Gen, tier: Tier) -> C18Case {
        let kind = g.weighted(&[2, 2, 2, 2, 2, 3, 1, 1, 5]) as u8;
        let mut units: Vec<UnitSpec> = (0..g.usize(1, 5)).map(|_| gen_unit(g, None)).collect();
        for u in units.iter_mut() {
            if g.bool(0.7) {
                u.flatten_maps();
                u.harmonise_ratings();
            }
        }
        // exact coincidence (a third of the locomotive simulations and batches whose first unit
        // is a conventional one): the engine's initial power limit is placed so that the very
        // first table lookup of the run — generator efficiency at (engine limit / generator
        // rating) — falls bitwise on an interior breakpoint of the generator's (non-flat) map
        let mut first_lookup_on_breakpoint: Option<usize> = None;
        if (kind == 0 || kind == 8) && g.bool(0.33) {
            let fresh = gen_unit(g, Some(false));
            if let UnitSpec::Conv { mut fc, mut gen, edrv, aux_offset, aux_coeff } = fresh {
                let n = gen.fracs.len();
                if n >= 4 && gen.etas.iter().any(|e| *e != gen.etas[0]) {
                    // prefer a breakpoint whose table value is not reproduced bit for bit by
                    // linear interpolation over the segment to its left
                    let xs: Vec<f64> = gen.fracs.iter().zip(&gen.etas).map(|(f, e)| f / e).collect();
                    let inexact: Vec<usize> = (1..n - 1).filter(|k| gen.etas[*k - 1] + (gen.etas[*k] - gen.etas[*k - 1]) / (xs[*k] - xs[*k - 1]) * (xs[*k] - xs[*k - 1]) != gen.etas[*k]).collect();
                    let mut k = if inexact.is_empty() { g.usize(1, n - 2) } else { inexact[g.idx(inexact.len())] };
                    if inexact.is_empty() {
                        // none: look for an efficiency value at some breakpoint that makes it so
                        // (the abscissae frac/eta must stay strictly increasing)
                        let start = g.usize(0, 400);
                        'search: for kk in 1..n - 1 {
                            for j in 0..401 {
                                let yr = 0.6 + 0.001 * ((start + j * 37) % 401) as f64;
                                let yr = (yr * 1000.0).round() / 1000.0;
                                let xk = gen.fracs[kk] / yr;
                                if !(xk > xs[kk - 1] && xk < xs[kk + 1]) {
                                    continue;
                                }
                                if gen.etas[kk - 1] + (yr - gen.etas[kk - 1]) / (xk - xs[kk - 1]) * (xk - xs[kk - 1]) != yr {
                                    gen.etas[kk] = yr;
                                    k = kk;
                                    break 'search;
                                }
                            }
                        }
                    }
                    let b = gen.fracs[k] / gen.etas[k];
                    let init = b * gen.pwr_max;
                    if init / gen.pwr_max == b && init <= fc.pwr_max && init >= fc.pwr_max / 10.0 {
                        fc.init = init;
                        fc.lag = fc.lag.max(10.0 * fc.pwr_max / init * 3.0);
                        first_lookup_on_breakpoint = Some(k);
                        units[0] = UnitSpec::Conv { fc, gen, edrv, aux_offset, aux_coeff };
                    }
                }
            }
        }
        let n = g.usize(4, 40);
        let mut t = 0.0;
        let mut trace = vec![(0.0, 0.0)];
        // slow random walk: stays inside every unit's ramp-rate limit, so that batches without
        // a failing element are common
        let mut f: f64 = 0.0;
        let smooth = g.bool(0.7);
        for _ in 0..n {
            let dt = Gen::round(g.f64(0.5, 3.0), 1);
            t += dt;
            f = if smooth { (f + g.f64(-0.004, 0.004) * dt).clamp(-0.05, 0.3) } else { g.f64(-0.2, 0.45) };
            trace.push((Gen::round(t, 1), Gen::round(f, 4)));
        }
        let train = match kind {
            2 | 7 => Some(gen_set_speed_case(g, tier, false)),
            3 => Some(gen_slts_case(g, tier, false)),
            _ => None,
        };
        // a fifth of the train cases carry a default hybrid locomotive as well
        let train = train.map(|mut t: TrainCase| {
            if !t.train.dummy && g.bool(0.2) {
                t.train.hybrids = 1;
            }
            t
        });
        let corridor = match kind {
            4 => Some(gen_dispatch_case(g, 2, &CorridorOpts { max_stages: 6, p_branch: 0.3, p_bypass: 0.2, ..Default::default() })),
            5 => {
                let mut c = gen_dispatch_case(g, 6, &CorridorOpts { max_stages: 6, p_lockout: 0.2, p_branch: 0.3, p_bypass: 0.2, ..Default::default() });
                while c.trains.len() < 3 {
                    let t = c.trains[0].clone();
                    c.trains.push(CorrTrain { east: !t.east, branch: t.branch, train: t.train, from: None, to: None });
                }
                Some(c)
            }
            _ => None,
        };
        let speed = if kind == 6 { Some(gen_speed_case(g, tier)) } else { None };
        let mut batch = vec![];
        if kind == 8 {
            let m = g.usize(1, 12);
            let fail_at = if g.bool(0.4) { Some(g.idx(m)) } else { None };
            for i in 0..m {
                batch.push((g.idx(units.len()), Gen::round(g.f64(0.3, 1.0), 2), Some(i) == fail_at || g.bool(0.03)));
            }
        }
        let one_sample: Vec<usize> = if kind == 8 && g.bool(0.2) { vec![g.idx(batch.len().max(1))] } else { vec![] };
        let walk_twice = kind == 8 && g.bool(0.15);
        C18Case { kind, units, pdct: g.int(0, 1) as u8, trace, train, corridor, speed, batch, hash_noise: g.usize(0, 50), one_sample, walk_twice, other_process: kind != 8 && g.bool(0.12), first_lookup_on_breakpoint }
    }

    fn check(case: &C18Case, cx: &mut Ctx) {
        cx.label(["loco_sim", "consist_sim", "set_speed", "speed_limited", "est_times", "dispatch", "path_profile", "train_params", "parallel_batch"][case.kind as usize % 9]);
        cx.label_if(case.first_lookup_on_breakpoint.is_some(), "first_table_lookup_exactly_on_a_breakpoint");
        if case.kind == 8 {
            check_batch(case, cx);
            return;
        }
        // the first run happens on this worker's long-lived thread, after whatever the previous
        // cases did on it and after a few unrelated calls of the library's public table lookup
        // (a generated bracket of a 7-point table): results may not depend on what the thread
        // did before
        {
            let xs = [0.0, 1.0, 2.0, 3.0, 4.0, 5.0, 6.0];
            let ys = [0.0, 1.0, 4.0, 9.0, 16.0, 25.0, 36.0];
            let x = case.first_lookup_on_breakpoint.unwrap_or(case.hash_noise % 6).min(5) as f64 + 0.5;
            let _ = altrios_core::utils::interp1d(&x, &xs, &ys, false);
        }
        let first = match catch(|| run_once(case)) {
            Err(p) => {
                cx.discard(&format!("panic_in_code:{}", p.class()));
                return;
            }
            Ok(Err(e)) => {
                cx.discard(&format!("build_err:{}", msg_class(&e, 40)));
                return;
            }
            Ok(Ok(v)) => v,
        };
        // second and third run on fresh threads (fresh per-thread hash keys), after some
        // hashing activity that advances the key counter by a generated amount
        for rep in 0..2 {
            let c = case.clone();
            let noise = case.hash_noise + rep * 7;
            let h = std::thread::Builder::new().stack_size(64 << 20).spawn(move || {
                let mut sink = 0usize;
                for i in 0..noise {
                    let mut m: HashMap<usize, usize> = HashMap::new();
                    m.insert(i, i);
                    sink += m.len();
                }
                let r = catch(|| run_once(&c));
                (r, sink)
            });
            let second = match h.map(|h| h.join()) {
                Ok(Ok((Ok(Ok(v)), _))) => v,
                Ok(Ok((Ok(Err(e)), _))) => {
                    cx.fail("C18|repeat|second-run-errs-where-first-did-not", e);
                    return;
                }
                Ok(Ok((Err(p), _))) => {
                    cx.fail("C18|repeat|second-run-unwinds-where-first-did-not", p.msg);
                    return;
                }
                _ => {
                    cx.discard("thread_spawn_failed");
                    return;
                }
            };
            if let Some(d) = first_diff(&first, &second, "") {
                cx.fail(format!("C18|repeat|outputs-differ:{}", ["loco_sim", "consist_sim", "set_speed", "speed_limited", "est_times", "dispatch", "path_profile", "train_params"][case.kind as usize % 8]), format!("run {} on a fresh thread: {d}", rep + 2).chars().take(500).collect::<String>());
            }
        }
        // the same scenario inside rayon pools of other sizes (any code that happens to use the
        // current pool must not let its size show in the result)
        for workers in [1usize, 3, 8] {
            let Ok(pool) = rayon::ThreadPoolBuilder::new().num_threads(workers).build() else { continue };
            let c = case.clone();
            match pool.install(move || catch(|| run_once(&c))) {
                Ok(Ok(v)) => {
                    if let Some(d) = first_diff(&first, &v, "") {
                        cx.fail(format!("C18|pool|outputs-differ-with-worker-count:{}", ["loco_sim", "consist_sim", "set_speed", "speed_limited", "est_times", "dispatch", "path_profile", "train_params"][case.kind as usize % 8]), format!("inside a pool of {workers} worker(s): {d}").chars().take(500).collect::<String>());
                    }
                }
                Ok(Err(e)) => cx.fail("C18|pool|run-errs-inside-a-pool", format!("{workers} workers: {e}").chars().take(300).collect::<String>()),
                Err(p) => cx.fail("C18|pool|run-unwinds-inside-a-pool", format!("{workers} workers: {}", p.msg)),
            }
        }
        if case.other_process {
            match run_in_child(case) {
                Some(out) if out.starts_with("OUTPUT ") => {
                    cx.label("also_run_in_another_process");
                    let mine = first.to_string();
                    if out["OUTPUT ".len()..] != mine {
                        let theirs: Value = serde_json::from_str(&out["OUTPUT ".len()..]).unwrap_or(Value::Null);
                        let d = first_diff(&first, &theirs, "").unwrap_or_else(|| "printed outputs differ".into());
                        cx.fail(format!("C18|process|outputs-differ:{}", ["loco_sim", "consist_sim", "set_speed", "speed_limited", "est_times", "dispatch", "path_profile", "train_params"][case.kind as usize % 8]), format!("run in a fresh process: {d}").chars().take(500).collect::<String>());
                    }
                }
                Some(out) if out.starts_with("ERR ") || out.starts_with("PANIC ") => {
                    cx.fail("C18|process|fresh-process-fails-where-this-one-did-not", out.chars().take(300).collect::<String>());
                }
                _ => cx.label("other_process_unavailable"),
            }
        }
        let big = match case.kind {
            5 => case.corridor.as_ref().map(|c| c.trains.len() >= 3).unwrap_or(false),
            _ => true,
        };
        if big {
            cx.nontrivial();
        }
    }
}

impl Property for C18 {
    fn id(&self) -> &'static str {
        "C18"
    }
    fn cases(&self, tier: Tier) -> usize {
        match tier {
            Tier::Quick => 1800,
            Tier::Thorough => 12000,
        }
    }
    fn tape_len(&self, _t: Tier) -> usize {
        16384
    }
    crate::typed_property!(C18, C18Case);
    fn rule(&self) -> String {
        "scenario kind in {locomotive sim, consist sim, set-speed, speed-limited, make_est_times, run_dispatch (>= 3 trains), path profile build, train params / builder parts}: run three times on equal inputs, runs 2 and 3 on fresh threads (fresh per-thread hash keys, after a generated amount of hashing activity); the complete outputs (whole simulation objects with histories, est-time nets, timed paths) must be identical value by value; every case is run again inside rayon pools of 1, 3 and 8 workers, and 12 % of these cases are additionally run once in a fresh process and the printed outputs compared character by character; parallel batch: 1-12 different locomotive simulations (40 % with one inadmissible trace) walked serially and in rayon pools of 1,2,3,5,8,16 workers x 3 repetitions: every element == its solo walk, a failure must be reported with the index of an element that fails solo, every element is untouched or equal to its solo outcome and its input trace is unchanged. Non-trivial: batch with >= 3 distinct elements, dispatch with >= 3 trains, any other kind".into()
    }
    fn assumptions(&self) -> Vec<String> {
        vec![
            "work-stealing schedules and hash seeds are sampled (repetition, pool sizes, fresh threads), not enumerated".into(),
            "outputs are compared as serde_json values (object keys sorted, numbers exact)".into(),
        ]
    }
}
