//! C16 — network validation accepts exactly the consistent networks and never aborts; the
//! legacy file layout loads to the same network.
//!
//! Valid networks come from the corridor skeleton (flips, alternates, lockouts) dressed with
//! the rich per-link data of the chain generator; mutants apply exactly one fault operator at
//! one generated link.  The reference is the flat list of documented rules: a mutant breaks
//! one of them by construction, so it must be rejected with an error value.

use crate::engine::*;
use crate::gen::net_chain::*;
use crate::gen::net_corridor::*;
use altrios_core::track::*;
use altrios_core::traits::SerdeAPI;
use altrios_core::uc;
use altrios_core::validate::ObjState;
use serde::{Deserialize, Serialize};

#[derive(Serialize, Deserialize, Clone, Debug)]
pub struct NetCase {
    pub skeleton: CorridorSpec,
    /// per link (1..): rich data; lengths override the skeleton's
    pub dress: Vec<LinkSpec>,
    /// 0 = no fault
    pub fault: u16,
    pub at: usize,
    pub aux: usize,
    /// 0 validate() on the object, 1 JSON text, 2 YAML text, 3 .yaml file, 4 .json file
    pub route: u8,
    pub legacy: bool,
}

pub const N_FAULTS: u16 = 50;

fn build_valid(case: &NetCase) -> Vec<Link> {
    let mut links = case.skeleton.build().links;
    for (k, l) in links.iter_mut().enumerate().skip(1) {
        if let Some(spec) = case.dress.get(k - 1) {
            let one = build_chain(std::slice::from_ref(spec)).remove(1);
            l.length = one.length;
            l.elevs = one.elevs;
            l.headings = one.headings;
            l.cat_power_limits = one.cat_power_limits;
            l.speed_set = one.speed_set;
            l.speed_sets = one.speed_sets;
        }
    }
    links
}

/// Apply fault `f` at link `k` (1-based).  Returns (applied, must_err): `must_err == false`
/// marks fields on which the documented rules are silent (only "returns" is asserted).
fn apply_fault(links: &mut Vec<Link>, f: u16, k: usize, aux: usize) -> (bool, bool, &'static str) {
    let n = links.len();
    let other = |k: usize, aux: usize| -> usize {
        // a real link different from k
        let mut o = 1 + (aux % (n - 1));
        if o == k {
            o = 1 + (o % (n - 1));
        }
        o
    };
    let big = LinkIdx::new(n as u32 + (aux % 5) as u32);
    let li = |i: usize| LinkIdx::new(i as u32);
    let nan = f64::NAN;
    let l = &mut links[k];
    match f {
        1 => {
            links[0].length = uc::M * 10.0;
            (true, true, "dummy-entry-has-length")
        }
        2 => {
            links[0].idx_next = li(1);
            (true, true, "dummy-entry-has-reference")
        }
        3 => {
            l.idx_curr = li(other(k, aux));
            (true, true, "idx_curr!=position")
        }
        4 => {
            l.idx_curr = li(0);
            (true, true, "real-entry-with-fake-idx_curr")
        }
        5 => {
            l.idx_flip = l.idx_curr;
            (true, true, "self-flip")
        }
        6 => {
            // flip to a link whose own flip does not point back
            let o = other(k, aux);
            if links[o].idx_flip.idx() == k || o == k {
                return (false, true, "");
            }
            links[k].idx_flip = li(o);
            (true, true, "flip-not-reciprocal")
        }
        7 => {
            let o = other(k, aux);
            if links[o].idx_prev.idx() == k || links[o].idx_prev_alt.idx() == k || o == k {
                return (false, true, "");
            }
            links[k].idx_next = li(o);
            (true, true, "next-not-reciprocated")
        }
        8 => {
            let o = other(k, aux);
            if links[o].idx_next.idx() == k || links[o].idx_next_alt.idx() == k || o == k {
                return (false, true, "");
            }
            links[k].idx_prev = li(o);
            (true, true, "prev-not-reciprocated")
        }
        9 => {
            if l.idx_next.idx() != 0 {
                return (false, true, "");
            }
            l.idx_next_alt = li(other(k, aux));
            (true, true, "next-alt-without-next")
        }
        10 => {
            if l.idx_prev.idx() != 0 {
                return (false, true, "");
            }
            l.idx_prev_alt = li(other(k, aux));
            (true, true, "prev-alt-without-prev")
        }
        11 => {
            // coincident switch points: k diverges (next_alt real) into a link that converges
            if l.idx_next_alt.idx() == 0 {
                return (false, true, "");
            }
            let nx = l.idx_next.idx();
            let o = other(nx, aux);
            if o == k || o == nx {
                return (false, true, "");
            }
            links[nx].idx_prev_alt = li(o);
            (true, true, "coincident-switch-points")
        }
        12 => {
            l.idx_next = big;
            (true, true, "idx_next-outside-network")
        }
        13 => {
            l.idx_prev = big;
            (true, true, "idx_prev-outside-network")
        }
        14 => {
            l.idx_flip = big;
            (true, true, "idx_flip-outside-network")
        }
        15 => {
            if l.idx_next.idx() == 0 {
                return (false, true, "");
            }
            l.idx_next_alt = big;
            (true, true, "idx_next_alt-outside-network")
        }
        16 => {
            if l.idx_prev.idx() == 0 {
                return (false, true, "");
            }
            l.idx_prev_alt = big;
            (true, true, "idx_prev_alt-outside-network")
        }
        17 => {
            l.length = uc::M * 0.0;
            (true, true, "length-zero")
        }
        18 => {
            l.length = uc::M * -5.0;
            (true, true, "length-negative")
        }
        19 => {
            l.length = uc::M * nan;
            (true, true, "length-nan")
        }
        20 => {
            l.length = uc::M * f64::INFINITY;
            (true, false, "length-infinite")
        }
        21 => {
            if l.elevs.len() < 3 {
                return (false, true, "");
            }
            l.elevs.swap(0, 1);
            (true, true, "elevs-unsorted")
        }
        22 => {
            if l.elevs.len() < 3 {
                return (false, true, "");
            }
            let o = l.elevs[0].offset;
            l.elevs[1].offset = o;
            (true, true, "elevs-duplicate-offset")
        }
        23 => {
            l.elevs[0].offset = uc::M * 1.0;
            (true, true, "elevs-first-offset-not-zero")
        }
        24 => {
            l.elevs.last_mut().unwrap().offset += uc::M * 1.0;
            (true, true, "elevs-last-offset-not-length")
        }
        25 => {
            l.elevs.truncate(1);
            (true, true, "elevs-single-point")
        }
        26 => {
            l.elevs.clear();
            (true, true, "elevs-empty")
        }
        27 => {
            let i = aux % l.elevs.len();
            l.elevs[i].elev = uc::M * nan;
            (true, true, "elev-nan")
        }
        28 => {
            let i = aux % l.elevs.len();
            l.elevs[i].elev = uc::M * f64::NEG_INFINITY;
            (true, true, "elev-infinite")
        }
        29 => {
            if l.headings.len() < 3 {
                return (false, true, "");
            }
            l.headings.swap(0, 1);
            (true, true, "headings-unsorted")
        }
        30 => {
            if l.headings.is_empty() {
                return (false, true, "");
            }
            l.headings[0].offset = uc::M * 1.0;
            (true, true, "headings-first-offset-not-zero")
        }
        31 => {
            if l.headings.is_empty() {
                return (false, true, "");
            }
            l.headings.last_mut().unwrap().offset -= uc::M * 1.0;
            (true, true, "headings-last-offset-not-length")
        }
        32 => {
            if l.headings.is_empty() {
                return (false, true, "");
            }
            let i = aux % l.headings.len();
            l.headings[i].heading = uc::RAD * [6.3, -0.1, nan, 7.5][aux % 4];
            (true, true, "heading-outside-[0,2pi)")
        }
        33 => {
            if l.headings.is_empty() {
                return (false, true, "");
            }
            l.headings.truncate(1);
            (true, true, "headings-single-point")
        }
        34 | 35 | 36 | 37 | 38 => {
            // speed-limit faults inside the governing set(s)
            let sets: Vec<&mut SpeedSet> = match l.speed_set.as_mut() {
                Some(s) => vec![s],
                None => l.speed_sets.values_mut().collect(),
            };
            if sets.is_empty() {
                return (false, true, "");
            }
            let ns = sets.len();
            let s = sets.into_iter().nth(aux % ns).unwrap();
            let nl = s.speed_limits.len();
            match f {
                34 => {
                    if nl < 2 {
                        return (false, true, "");
                    }
                    s.speed_limits.swap(0, nl - 1);
                    if s.speed_limits[0] <= s.speed_limits[nl - 1] && nl == 2 {
                        return (false, true, "");
                    }
                    (true, true, "speed-limits-unsorted")
                }
                35 => {
                    let d = s.speed_limits[aux % nl];
                    s.speed_limits.insert(aux % nl, d);
                    (true, true, "speed-limits-duplicate-bounds")
                }
                36 => {
                    let x = &mut s.speed_limits[aux % nl];
                    x.offset_start = x.offset_end + uc::M * 1.0;
                    (true, true, "speed-limit-start>end")
                }
                37 => {
                    s.speed_limits[aux % nl].speed = uc::MPS * nan;
                    (true, true, "speed-limit-nan")
                }
                _ => {
                    s.speed_limits[aux % nl].offset_start = uc::M * -1.0;
                    (true, true, "speed-limit-negative-offset")
                }
            }
        }
        39 => {
            l.speed_set = None;
            l.speed_sets.clear();
            (true, true, "no-speed-data")
        }
        40 => {
            // both a single set and a per-type map
            let s = match (&l.speed_set, l.speed_sets.values().next()) {
                (Some(s), _) => s.clone(),
                (None, Some(s)) => s.clone(),
                _ => return (false, true, ""),
            };
            l.speed_set = Some(s.clone());
            l.speed_sets.insert(TrainType::Freight, s);
            (true, true, "both-speed_set-and-speed_sets")
        }
        41 => {
            if l.cat_power_limits.len() < 2 {
                return (false, true, "");
            }
            let e = l.cat_power_limits[1].offset_end;
            // stretching the first section to the end of the second overlaps it only if the
            // second has an extent
            if e <= l.cat_power_limits[1].offset_start {
                return (false, true, "");
            }
            l.cat_power_limits[0].offset_end = e;
            (true, true, "catenary-sections-overlap")
        }
        42 => {
            if l.cat_power_limits.is_empty() {
                return (false, true, "");
            }
            let x = &mut l.cat_power_limits[0];
            let s = x.offset_start;
            x.offset_start = x.offset_end + uc::M * 1.0;
            x.offset_end = s;
            (true, true, "catenary-start>end")
        }
        43 => {
            if l.cat_power_limits.is_empty() {
                return (false, true, "");
            }
            let len = l.length;
            l.cat_power_limits.last_mut().unwrap().offset_end = len + uc::M * 10.0;
            (true, true, "catenary-beyond-link")
        }
        44 => {
            if l.cat_power_limits.is_empty() {
                return (false, true, "");
            }
            l.cat_power_limits[0].power_limit = uc::W * [-1.0, nan][aux % 2];
            (true, true, "catenary-power-negative-or-nan")
        }
        45 => {
            // a speed set whose parameter gate is malformed
            let s = match l.speed_set.as_mut() {
                Some(s) => s,
                None => match l.speed_sets.values_mut().next() {
                    Some(s) => s,
                    None => return (false, true, ""),
                },
            };
            // (one rule at a time: a fractional count only for the axle gate, and a NaN / negative
            // threshold on the mass gates too, where no integer rule can catch it instead)
            let (limit_type, limit_val) = match (aux / 3) % 3 {
                0 => (LimitType::AxleCount, [-1.0, nan, 3.5][aux % 3]),
                1 => (LimitType::MassTotal, [-1.0, nan][aux % 2]),
                _ => (LimitType::MassPerBrake, [-1.0, nan][aux % 2]),
            };
            s.speed_params = vec![SpeedParam { limit_val, limit_type, compare_type: CompareType::TpGreaterThanRp }];
            (true, true, "speed-param-malformed")
        }
        47..=50 => {
            // coincident switch points and nothing else: every reference stays reciprocal.  A
            // link A that diverges (next B, alternate next C) is found from k onwards; a new
            // link D (no flip, no predecessor) is appended whose next is the target T (B or C),
            // and T names D and A as its two predecessors in either order:
            //   47: T = B, prev A, prev_alt D      48: T = B, prev D, prev_alt A
            //   49: T = C, prev A, prev_alt D      50: T = C, prev D, prev_alt A
            // (50 is the shape in which the coincidence is carried by the alternate reference
            // on both sides)
            let Some(a) = (0..n - 1).map(|d| 1 + (k - 1 + d) % (n - 1)).find(|i| links[*i].idx_next_alt.idx() != 0 && links[*i].idx_next.idx() != 0) else {
                return (false, true, "");
            };
            let t = if f <= 48 { links[a].idx_next.idx() } else { links[a].idx_next_alt.idx() };
            if links[t].idx_prev_alt.idx() != 0 || links[t].idx_prev.idx() != a {
                return (false, true, "");
            }
            let mut d = links[t].clone();
            d.idx_curr = li(n);
            d.idx_flip = li(0);
            d.idx_next = li(t);
            d.idx_next_alt = li(0);
            d.idx_prev = li(0);
            d.idx_prev_alt = li(0);
            d.link_idxs_lockout = vec![];
            links.push(d);
            if f % 2 == 1 {
                links[t].idx_prev_alt = li(n);
            } else {
                links[t].idx_prev = li(n);
                links[t].idx_prev_alt = li(a);
            }
            (true, true, ["coincident-switch-points-only:primary-next/alt-prev", "coincident-switch-points-only:primary-next/primary-prev-is-the-other", "coincident-switch-points-only:alt-next/alt-prev", "coincident-switch-points-only:alt-next-named-as-alt-prev"][(f - 47) as usize])
        }
        _ => {
            if l.elevs.len() < 2 {
                return (false, true, "");
            }
            l.elevs[0].offset = uc::M * nan;
            (true, true, "elev-offset-nan")
        }
    }
}

fn tmp_path(ext: &str) -> std::path::PathBuf {
    let dir = std::path::Path::new(crate::engine::run::VERIF_ROOT).join("work").join("c16");
    let _ = std::fs::create_dir_all(&dir);
    let tid = format!("{:?}", std::thread::current().id()).replace(|c: char| !c.is_ascii_digit(), "");
    dir.join(format!("net-{}-{}.{}", std::process::id(), tid, ext))
}

/// feed the network through one of the advertised entry points
fn load(links: &[Link], route: u8) -> Result<Result<Network, String>, PanicRec> {
    let net = Network(links.to_vec());
    catch(|| -> Result<Network, String> {
        match route {
            0 => net.validate().map(|_| net.clone()).map_err(|e| format!("{e:?}")),
            1 => {
                let txt = serde_json::to_string(&net).map_err(|e| format!("serialise: {e}"))?;
                Network::from_json(txt).map_err(|e| format!("{e:#}"))
            }
            2 => {
                let txt = serde_yaml::to_string(&net).map_err(|e| format!("serialise: {e}"))?;
                Network::from_yaml(txt).map_err(|e| format!("{e:#}"))
            }
            r => {
                let p = tmp_path(if r == 3 { "yaml" } else { "json" });
                let txt = if r == 3 { serde_yaml::to_string(&net).map_err(|e| format!("serialise: {e}"))? } else { serde_json::to_string(&net).map_err(|e| format!("serialise: {e}"))? };
                std::fs::write(&p, txt).map_err(|e| format!("write: {e}"))?;
                let r = Network::from_file(&p).map_err(|e| format!("{e:#}"));
                let _ = std::fs::remove_file(&p);
                r
            }
        }
    })
}

/// the same network in the legacy layout (speed_sets as a list carrying the train type)
fn legacy_text(links: &[Link], json: bool) -> Option<String> {
    let mut out = vec![];
    for l in links {
        if l.speed_set.is_some() {
            return None;
        }
        let mut v = serde_json::to_value(l).ok()?;
        let o = v.as_object_mut()?;
        o.remove("speed_set");
        let mut sets = vec![];
        // deterministic order
        let mut keys: Vec<&TrainType> = l.speed_sets.keys().collect();
        keys.sort_by_key(|k| **k as u8);
        for k in keys {
            let s = &l.speed_sets[k];
            sets.push(serde_json::json!({
                "speed_limits": serde_json::to_value(&s.speed_limits).ok()?,
                "speed_params": serde_json::to_value(&s.speed_params).ok()?,
                "train_type": serde_json::to_value(k).ok()?,
                "is_head_end": s.is_head_end,
            }));
        }
        o.insert("speed_sets".into(), serde_json::Value::Array(sets));
        out.push(v);
    }
    let v = serde_json::Value::Array(out);
    if json {
        serde_json::to_string(&v).ok()
    } else {
        serde_yaml::to_string(&v).ok()
    }
}

pub struct C16;
impl C16 {
    fn gen(g: &mut Gen, _tier: Tier) -> NetCase {
        let skeleton = gen_corridor(g, &CorridorOpts { max_stages: 5, p_lockout: 0.3, p_branch: 0.3, p_bypass: 0.25, ..Default::default() });
        let n_links = skeleton.build().links.len() - 1;
        let tp = gen_train_params(g);
        let legacy = g.bool(0.25);
        let o = ChainOpts { max_restr: 4, multi_type: true, ..Default::default() };
        let mut dress = vec![];
        for _ in 0..n_links {
            let e0 = g.grid(0.0, 300.0, 30);
            let mut l = gen_link(g, &tp, e0, &o);
            if legacy && l.single {
                // the legacy layout only has the per-type list
                l.single = false;
            }
            dress.push(l);
        }
        // legacy-layout cases: half valid, half carrying a fault (the legacy file must be
        // rejected like the current layout)
        let fault = if g.bool(if legacy { 0.5 } else { 0.2 }) { 0 } else { g.int(1, N_FAULTS as i64) as u16 };
        NetCase { skeleton, dress, fault, at: g.usize(1, n_links), aux: g.usize(0, 997), route: g.int(0, 4) as u8, legacy }
    }

    fn check(case: &NetCase, cx: &mut Ctx) {
        let mut links = build_valid(case);
        let n = links.len();
        cx.label(["via_validate", "via_json_text", "via_yaml_text", "via_yaml_file", "via_json_file"][case.route as usize % 5]);
        if case.fault == 0 {
            cx.label("valid_network");
            // accepted through every entry point
            for route in 0..5u8 {
                match load(&links, route) {
                    Err(p) => cx.fail(format!("C16|panic|valid:{}", p.class()), format!("route {route}: {} at {}:{}", p.msg, p.file, p.line)),
                    Ok(Err(e)) => {
                        let cat = if e.contains("Catenary power limit offset pairs must be non-overlapping") { ":disjoint-catenary-sections" } else { "" };
                        cx.fail(format!("C16|reject|valid-network-rejected{cat}"), format!("route {route}: {}", e.chars().take(600).collect::<String>()))
                    }
                    Ok(Ok(net)) => {
                        if route >= 1 && net.0 != links {
                            cx.fail("C16|load|loaded-network-differs", format!("route {route}"));
                        }
                    }
                }
            }
            if case.legacy {
                cx.label("legacy_layout");
                for json in [false, true] {
                    let Some(txt) = legacy_text(&links, json) else { continue };
                    let p = tmp_path(if json { "old.json" } else { "old.yaml" });
                    if std::fs::write(&p, &txt).is_err() {
                        continue;
                    }
                    let r = catch(|| Network::from_file(&p).map_err(|e| format!("{e:#}")));
                    let _ = std::fs::remove_file(&p);
                    match r {
                        Err(pr) => cx.fail(format!("C16|panic|legacy:{}", pr.class()), pr.msg),
                        Ok(Err(e)) => cx.fail("C16|legacy|legacy-file-rejected", e.chars().take(600).collect::<String>()),
                        Ok(Ok(net)) => {
                            if net.0 != links {
                                let which = net.0.iter().zip(links.iter()).position(|(a, b)| a != b);
                                cx.fail("C16|legacy|legacy-layout-loads-to-a-different-network", format!("json={json}: first differing link {which:?}"));
                            }
                        }
                    }
                }
            }
            let switches = links.iter().filter(|l| l.idx_next_alt.idx() != 0).count();
            if n >= 5 && switches >= 1 {
                cx.nontrivial();
            }
            return;
        }
        let k = case.at.min(n - 1).max(1);
        let (applied, must_err, name) = apply_fault(&mut links, case.fault, k, case.aux);
        if !applied {
            cx.discard("fault_not_applicable_here");
            return;
        }
        cx.label(&format!("fault:{name}"));
        // NaN / infinity cannot be written as JSON numbers: those mutants go through the
        // object or YAML routes
        let has_nonfinite = matches!(case.fault, 19 | 20 | 27 | 28 | 37 | 46) || (matches!(case.fault, 32 | 44 | 45) && serde_json::to_string(&Network(links.clone())).map(|s| s.contains("null")).unwrap_or(true));
        let route = if has_nonfinite && (case.route == 1 || case.route == 4) { case.route + 1 } else { case.route } % 5;
        let route = if has_nonfinite && (route == 1 || route == 4) { 2 } else { route };
        if case.legacy {
            // the same faulty network as a legacy-layout file
            let json = !has_nonfinite && route % 2 == 1;
            if let Some(txt) = legacy_text(&links, json) {
                let p = tmp_path(if json { "oldf.json" } else { "oldf.yaml" });
                if std::fs::write(&p, &txt).is_ok() {
                    cx.label("fault_in_legacy_layout_file");
                    let r = catch(|| Network::from_file(&p).map_err(|e| format!("{e:#}")));
                    let _ = std::fs::remove_file(&p);
                    match r {
                        Err(pr) => cx.fail(format!("C16|panic|{name}:legacy-file:{}", pr.class()), format!("fault {name} at link {k}: {}", pr.msg)),
                        Ok(Ok(_)) => {
                            if must_err {
                                cx.fail(format!("C16|accept|{name}:legacy-file"), format!("fault {name} at link {k} of {} was accepted from a legacy-layout {} file", n - 1, if json { "JSON" } else { "YAML" }));
                            }
                        }
                        Ok(Err(_)) => {}
                    }
                }
            }
        }
        match load(&links, route) {
            Err(p) => cx.fail(format!("C16|panic|{name}:{}", p.class()), format!("fault {name} at link {k} (route {route}): {} at {}:{}", p.msg, p.file, p.line)),
            Ok(Ok(_)) => {
                if must_err {
                    cx.fail(format!("C16|accept|{name}"), format!("fault {name} at link {k} of {} was accepted (route {route})", n - 1));
                } else {
                    cx.label("silent_rule_accepted");
                }
            }
            Ok(Err(e)) => {
                if e.trim().is_empty() {
                    cx.fail("C16|err|empty-error", name);
                }
            }
        }
        cx.nontrivial();
    }
}

impl Property for C16 {
    fn id(&self) -> &'static str {
        "C16"
    }
    fn cases(&self, tier: Tier) -> usize {
        match tier {
            Tier::Quick => 24000,
            Tier::Thorough => 144000,
        }
    }
    fn tape_len(&self, _t: Tier) -> usize {
        8192
    }
    crate::typed_property!(C16, NetCase);
    fn rule(&self) -> String {
        "valid network = corridor skeleton (2-5 stages, flips, alternates, optional lockouts) dressed per link with 2-7 elevation points, 0 or 2-6 heading points, 0-3 catenary sections, single speed set or per-type map with gates; about 30 % stay valid (half of the legacy-layout cases, a fifth of the rest) and must be accepted by validate(), from_json, from_yaml and from_file(.yaml/.json) and reload equal (25 % additionally written in the legacy list-of-OldSpeedSet layout as YAML and JSON files and must load to the identical network); the others receive exactly one of 50 fault operators (dummy entry, idx_curr, flip, next/prev reciprocity, alternates, coincident switch points, references outside the network, length, elevation / heading / speed / catenary / gate faults incl. NaN and infinity) at a generated link and must come back as Err through the generated entry point (and, for legacy-layout cases, from the legacy-layout file as well) — never Ok, never an unwind. Non-trivial: any mutant, or a valid network with >= 4 links and a switch".into()
    }
    fn assumptions(&self) -> Vec<String> {
        vec![
            "where the documented rules are silent (+infinite length) only 'returns without unwinding' is asserted".into(),
            "NaN / infinity cannot be expressed in JSON: those mutants use the object or YAML routes".into(),
            "scratch files live under /verif/work/c16 and are removed after each load".into(),
        ]
    }
    fn panic_is_violation(&self) -> bool {
        true
    }
}
