//! C03 — a speed-limited train never overspeeds, never reverses, stops inside its path, never
//! panics.  Whole-path and link-by-link schedules here; the timed-path schedule (dispatch
//! output) lives in the corridor module.

use crate::engine::*;
use crate::gen::net_chain::*;
use crate::gen::train::*;
use crate::props::speed_profile::{posted, SpeedCase};
use crate::props::train_run::*;

pub fn gen_slts_case(g: &mut Gen, _tier: Tier, allow_dummy: bool) -> TrainCase {
    // 20 % "steep" cases: grades up to 2.5 % (else 1 %), enough power to climb them, and in
    // most of them weakly braked cars (net braking ratio down to 0.05, the low end of loaded
    // freight stock): braking curves over grade breaks, long braking distances
    let steep = g.bool(0.2);
    // half of the steep cases run downhill only (every grade mirrored to <= 0), with little
    // power — hence little dynamic braking — per tonne: the friction brake does the work
    let descent = steep && g.bool(0.5);
    let (w_lo, w_hi) = if descent { (0.4, 1.2) } else if steep { (1.6, 3.5) } else { (0.7, 2.5) };
    let mut train = gen_train(g, &TrainOpts { allow_dummy, max_cars: 100, min_w_per_kg: w_lo, max_w_per_kg: w_hi, ..Default::default() });
    if steep && g.bool(0.7) {
        let k = g.grid(0.4, 0.9, 10);
        for c in train.cars.iter_mut() {
            c.braking_ratio = Gen::round((c.braking_ratio * k).max(0.05), 3);
        }
    }
    let tp = train.params();
    // 30 % simple profiles (at most one restriction per link, no gates): with a monotone
    // limit profile ahead any overspeed is unambiguous (cf. window_class)
    let simple = g.bool(0.3);
    let o = ChainOpts {
        max_links: 4,
        max_grade: if steep { 0.025 } else { 0.01 },
        max_len: 8000.0,
        max_restr: if simple { 1 } else { 7 },
        gates: !simple,
        multi_type: !simple,
        ..Default::default()
    };
    // first link long enough for the backward braking curve (10 % short ones exercise the
    // descriptive-error path)
    let first_min = if g.bool(0.1) { 0.0 } else { g.grid(4000.0, 9000.0, 10) + tp.length };
    let mut links = gen_links_for(g, &tp, &o, tp.length + 1500.0, first_min);
    if descent {
        let mut e = links[0].elevs[0].1;
        for l in links.iter_mut() {
            let old: Vec<f64> = l.elevs.iter().map(|p| p.1).collect();
            l.elevs[0].1 = e;
            for i in 1..old.len() {
                e = Gen::round(e - (old[i] - old[i - 1]).abs(), 3);
                l.elevs[i].1 = e;
            }
        }
    }
    let mode = if g.bool(0.6) { 1 } else { 2 };
    let also_real_walk = g.bool(0.06);
    // 25 %: start further along the first link
    let room = links[0].length - tp.length - 100.0;
    let init_offset_extra = if g.bool(0.25) && room > 50.0 { Gen::round(g.f64(1.0, room), 1) } else { 0.0 };
    // 20 %: a friction brake that builds up over 5-60 s (the builder gives every train an instant
    // brake; the type's own default is 60 s x 0.5) — the controller then has to start braking
    // one look-ahead early, for every braking point inside the window
    let share = 0.2;
    let brake_ramp_up = if g.bool(share) { Some((g.grid(5.0, 60.0, 11), g.grid(0.3, 0.7, 4))) } else { None };
    TrainCase { links, train, mode, trace: vec![], save_interval: Some(1), simulation_days: None, init_speed_zero: false, also_real_walk, scenario_year: None, and_parts: false, init_offset_extra, hand_assembled: false, init_offset_abs: None, timed_speed: 0.0, brake_ramp_up }
}

pub fn speed_case_of(case: &TrainCase) -> SpeedCase {
    SpeedCase { tp: case.train.params(), links: case.links.clone(), partition: vec![case.links.len()], train: None }
}

/// Geometric class of a position with respect to the posted profile ahead of it.  The known
/// braking-curve defect (curve points planted in an earlier zone keep the speed / target of
/// a later zone) needs a non-monotone limit profile within braking distance: the limit both
/// rises and falls within the next 2 km (the stop at the end of the path counts as a fall).
/// With a monotone profile ahead the curve construction is sound, so any violation there is
/// reported as new.
pub fn window_class(sc: &SpeedCase, b: &[f64], x: f64) -> &'static str {
    window_class_timed(sc, b, x, false)
}

/// `timed`: the path is extended link by link under dispatch authority, so every link
/// boundary may have been an end of authority the train had to stop at
pub fn window_class_timed(sc: &SpeedCase, b: &[f64], x: f64, timed: bool) -> &'static str {
    let end = *b.last().unwrap();
    // last metres before a stop (end of the path; under dispatch authority every link
    // boundary may have been one): reported only when the profile ahead is monotone
    let near_stop = x >= end - 150.0 || (timed && b.iter().any(|e| x >= e - 150.0 && x <= e + 1.0));
    // exact breakpoints of the posted profile in (x, x + 2000]
    let mut bps: Vec<f64> = vec![];
    for (j, l) in sc.links.iter().enumerate() {
        bps.push(b[j]);
        for set in &l.sets {
            for (a, e, _) in &set.limits {
                bps.push(b[j] + a);
                bps.push(b[j] + e);
                bps.push(b[j] + e + sc.tp.length);
            }
        }
    }
    let hi = x + 2000.0;
    bps.retain(|p| *p > x && *p < hi && *p < end);
    bps.push(x);
    bps.push(hi.min(end));
    bps.sort_by(|a, c| a.partial_cmp(c).unwrap());
    bps.dedup();
    let mut rise = false;
    let mut fall = hi >= end;
    let mut prev = posted(sc, b, x.min(end - 1e-9));
    for w in bps.windows(2) {
        let m = 0.5 * (w[0] + w[1]);
        let p = posted(sc, b, m);
        if p > prev {
            rise = true;
        }
        if p < prev {
            fall = true;
        }
        prev = p;
    }
    if rise && fall {
        ":non-monotone-limits-ahead"
    } else if near_stop {
        ":stop-approach"
    } else {
        ""
    }
}

/// "Speed limit violated! speed=a m^1 s^-1, speed_limit=b m^1 s^-1" -> a - b
fn parse_excess(msg: &str) -> Option<f64> {
    let a = msg.split("speed=").nth(1)?.split(' ').next()?.parse::<f64>().ok()?;
    let b = msg.split("speed_limit=").nth(1)?.split(' ').next()?.parse::<f64>().ok()?;
    Some(a - b)
}

pub fn check_c03_run(case: &TrainCase, run: &TrainRun, cx: &mut Ctx) {
    check_c03_run_opts(case, run, cx, false)
}

pub fn check_c03_run_opts(case: &TrainCase, run: &TrainRun, cx: &mut Ctx, timed: bool) {
    // positions on the final stopping curve (as the sim itself laid it out, minus one step of
    // travel) belong to the known stopping-curve defect, whatever their distance from the end
    let on_stop_curve = |x: f64, v: f64| run.stop_curve_start.map(|s| x >= s - v.max(1.0) - 1.0).unwrap_or(false);
    let speed_at = |x: f64| run.states.iter().rev().find(|s| s.offset.value <= x + 1e-9).map(|s| s.speed.value).unwrap_or(0.0);
    // class for "target above limit" failures (root cause 1 and its stop-curve variant)
    // root-cause discriminator that overrides the geometric / magnitude classes below: the
    // braking curve itself is not what brake force and (reference) resistance give
    let curve_dev = if timed { (0, None) } else { braking_curve_deviation(&RunCtx::new(case, run)) };
    cx.count("braking_curve_steps_checked", curve_dev.0 as u64);
    cx.label_if(curve_dev.0 > 0, "braking_curve_compared_with_reference");
    if let Some(d) = &curve_dev.1 {
        cx.label("braking_curve_deviates_from_reference");
        if std::env::var("VERIF_DUMP").is_ok() {
            eprintln!("DUMP curve deviation: {d}");
        }
    }
    let look_dev = if timed { (0, None) } else { lookahead_deviation(case, run) };
    cx.count("brake_look_ahead_steps_checked", look_dev.0 as u64);
    cx.label_if(case.brake_ramp_up.is_some(), "friction_brake_with_build_up_time");
    cx.label_if(look_dev.0 > 0, "brake_look_ahead_compared_with_reference");
    if let Some(d) = &look_dev.1 {
        cx.label("target_ignores_a_braking_point_inside_the_look_ahead");
        if std::env::var("VERIF_LOOK_FAIL").is_ok() {
            cx.fail("C03|debug|look-ahead-deviation", d.clone());
        }
        if std::env::var("VERIF_DUMP").is_ok() {
            eprintln!("DUMP look-ahead deviation: {d}");
        }
    }
    let curve_bad = curve_dev.1.is_some() || look_dev.1.is_some();
    #[allow(non_snake_case)]
    let CURVE_BAD: &str = if curve_dev.1.is_some() { ":braking-curve-not-brake-plus-resistance" } else { ":target-ignores-a-braking-point-inside-the-brake-look-ahead" };
    let window_class = |sc: &SpeedCase, b: &[f64], x: f64| {
        if curve_bad {
            return CURVE_BAD;
        }
        let g = window_class_timed(sc, b, x, timed);
        if g == ":non-monotone-limits-ahead" {
            g
        } else if on_stop_curve(x, speed_at(x)) || g == ":stop-approach" {
            ":stop-approach"
        } else {
            ""
        }
    };
    // class for "speed above a limit" failures: geometric class of root cause 1 first; else the
    // magnitude class of root cause 2 — every braking curve is a right-continuous step
    // function sampled once per step, so a train may start braking one step late and exceed
    // the next curve point by at most one step's worth of deceleration
    let one_step = {
        let m = case.train.mass_static() + case.train.mass_rot();
        let f = case.train.fric_brake_force_max();
        1.1 * (f / m + 0.02 * G) * 1.0 + 0.05
    };
    let speed_class = |sc: &SpeedCase, b: &[f64], x: f64, excess: f64| {
        if curve_bad {
            return CURVE_BAD;
        }
        let g = window_class_timed(sc, b, x, timed);
        if g == ":non-monotone-limits-ahead" {
            g
        } else if excess <= one_step {
            ":within-one-braking-step"
        } else {
            ""
        }
    };
    let sc = speed_case_of(case);
    let b = crate::props::speed_profile::bases(&sc);
    let st = &run.states;
    let tag = |n: &str| format!("C03|{n}");
    if let Some(p) = &run.panic {
        // "Speed limit violated! speed=a m^1 s^-1, speed_limit=b m^1 s^-1"
        let nums: Vec<f64> = p.msg.split(|c: char| c == '=' || c == ' ' || c == ',').filter_map(|t| t.parse::<f64>().ok()).collect();
        let excess = if p.msg.contains("Speed limit violated") && nums.len() >= 2 { nums[0] - nums[nums.len() - 2].min(nums[1]) } else { f64::INFINITY };
        let excess = if p.msg.contains("Speed limit violated") { parse_excess(&p.msg).unwrap_or(excess) } else { f64::INFINITY };
        let wc = st.last().map(|s| speed_class(&sc, &b, s.offset.value, excess)).unwrap_or("");
        // how long had the train been at (nearly) full friction braking when it unwound?
        let full = run.fric_force.iter().rev().take_while(|f| **f >= 0.9 * run.fric_force_max && run.fric_force_max > 0.0).count();
        if p.msg.contains("Speed limit violated") {
            cx.label(&format!("overspeed_panic{wc}_after_full_brake_steps_{}", match full { 0 => "0", 1 => "1", 2 => "2", 3..=5 => "3-5", 6..=10 => "6-10", _ => "11+" }));
        }
        cx.fail(
            tag(&format!("panic|{}{wc}", p.class())),
            format!("run unwound: {} at {}:{} after {} saved steps", p.msg, p.file, p.line, st.len()),
        );
    }
    if let Err(e) = &run.result {
        if e.contains(STALL_MSG) {
            // the bounded restatement of the walk loop saw 3000 motionless steps: ask the real
            // walk() (child process, no history) whether it returns
            cx.label("stall_predicted");
            match probe_real_walk(case, 10) {
                Some(r) => cx.label(if r.contains("RETURNED ok") { "stall_probe_returned_ok" } else { "stall_probe_returned_err" }),
                None => cx.fail(tag("hang|walk-never-returns-on-stalled-train"), format!("the train sits at speed 0 without progress ({e}) and the real walk() did not return within 10 s")),
            }
        }
        if e.trim().is_empty() {
            cx.fail(tag("err|empty-error-text"), "run returned an error without text");
        }
    }
    // the chain schedules drive the sim through a bounded restatement of walk()'s loop; a
    // sample of them is also run by the code's own walk() in a child process, which must come
    // to the same outcome and the same final state, bit for bit
    if case.also_real_walk && !timed && !run.result.as_ref().err().map(|e| e.contains(STALL_MSG) || e.contains(SLOW_MSG)).unwrap_or(false) {
        if let Some(fs) = &run.final_state {
            let mine = format!("{} {}", if run.panic.is_some() { "panic" } else if run.result.is_ok() { "ok" } else { "err" }, final_summary(fs));
            match probe_real_walk(case, 30) {
                Some(r) => {
                    cx.label("also_run_by_the_code's_own_walk");
                    let theirs: String = r.trim_start_matches("RETURNED ").split(' ').take(5).collect::<Vec<_>>().join(" ");
                    if theirs != mine {
                        cx.fail(tag("walk|own-walk-differs-from-its-restated-loop"), format!("walk() in a child process: {theirs}; restated loop here: {mine} ({} saved steps)", st.len()));
                    }
                }
                None => cx.fail(tag("hang|walk-does-not-return-where-its-restated-loop-does"), format!("the restated loop ended after {} saved steps ({mine}); the code's own walk() did not return within 30 s", st.len())),
            }
        }
    }
    let mut braked = false;
    for k in 0..st.len() {
        let s = &st[k];
        let v = s.speed.value;
        let x = s.offset.value;
        if !(v >= -1e-4) {
            cx.fail(tag("speed|negative"), format!("saved step {k}: speed {v} at offset {x}"));
        }
        let p = posted(&sc, &b, x.min(*b.last().unwrap() - 1e-9));
        if !(v <= p * (1.0 + 1e-9) + 1e-9) {
            let wc = speed_class(&sc, &b, x, v - p);
            cx.fail(tag(&format!("speed|above-posted-limit{wc}")), format!("saved step {k}: speed {v} > posted limit {p} at offset {x}"));
        }
        if k >= 1 {
            if !(s.speed_target.value <= s.speed_limit.value * (1.0 + 1e-12)) {
                let wc = window_class(&sc, &b, st[k - 1].offset.value);
                cx.fail(tag(&format!("target|above-limit-in-force{wc}")), format!("saved step {k}: speed_target {} > speed_limit {} at offset {}", s.speed_target.value, s.speed_limit.value, st[k - 1].offset.value));
            }
            if !(s.offset.value >= st[k - 1].offset.value - 1e-4) {
                cx.fail(tag("offset|moved-backwards"), format!("saved step {k}: offset {} -> {}", st[k - 1].offset.value, s.offset.value));
            }
            // limit in force at the position of step k-1 is the one evaluated at step k
            let vp = st[k - 1].speed.value;
            if !(vp <= s.speed_limit.value * (1.0 + 1e-9) + 1e-9) {
                let wc = speed_class(&sc, &b, st[k - 1].offset.value, vp - s.speed_limit.value);
                cx.fail(tag(&format!("speed|above-limit-in-force{wc}")), format!("saved step {k}: speed {vp} at offset {} > limit in force {} (braking curve / posted)", st[k - 1].offset.value, s.speed_limit.value));
            }
            if s.speed_limit.value < st[k - 1].speed_limit.value && k > 1 {
                braked = true;
            }
        }
    }
    if run.result.is_ok() && run.panic.is_none() {
        if let Some(fs) = &run.final_state {
            let end = run.offset_end;
            let x = fs.offset.value;
            if !(x >= end - 1000.0 * 0.3048 - 1e-6) {
                cx.fail(tag("stop|short-of-window"), format!("run ended Ok at offset {x}, path end {end}"));
            }
            // an overshoot of less than one slow step is the terminal form of the known
            // stopping-curve defect; anything larger is reported as new
            let small = if x <= end + 3.0 && fs.speed.value.abs() <= 3.0 { ":within-one-slow-step" } else { "" };
            if !(x <= end + 1e-6) {
                cx.fail(tag(&format!("stop|beyond-end-of-path{small}")), format!("run ended Ok at offset {x} beyond path end {end} (speed {})", fs.speed.value));
            }
            if fs.speed.value != 0.0 {
                cx.fail(tag(&format!("stop|not-at-rest{small}")), format!("run ended Ok with speed {} at offset {x}, path end {end}", fs.speed.value));
            }
        }
    }
    cx.label_if(braked, "limit_drop_ahead_braking");
    if braked && st.len() >= 200 {
        cx.nontrivial();
    }
}

#[derive(serde::Serialize, serde::Deserialize, Clone, Debug)]
#[serde(untagged)]
pub enum C03Case {
    /// timed paths from the real pipeline make_est_times -> run_dispatch -> walk_timed_path
    Timed { timed: crate::props::corridor::DispatchCase },
    Chain(TrainCase),
}

/// the route a train was given, as a chain of link specs (for the posted-limit reference)
fn route_specs(c: &crate::gen::net_corridor::CorridorSpec, cor: &crate::gen::net_corridor::Corridor, route: &[usize], tt: u8) -> Vec<LinkSpec> {
    let mut out = vec![];
    for l in route {
        let _ = c;
        let seg = cor.seg_of_link[*l].clone().expect("link on route exists");
        out.push(LinkSpec {
            length: seg.length,
            elevs: vec![(0.0, 0.0), (seg.length, 0.0)],
            headings: vec![],
            cats: vec![],
            single: true,
            sets: vec![SetSpec { train_type: tt, head_end: false, params: vec![], limits: vec![(0.0, seg.length, seg.speed)] }],
            coords: 0,
        });
    }
    out
}

fn check_timed(dc: &crate::props::corridor::DispatchCase, cx: &mut Ctx) {
    use crate::props::corridor::*;
    cx.label("timed_path_from_dispatch");
    let b = match build(dc) {
        Ok(b) => b,
        Err(e) => {
            cx.discard(&format!("build_err:{}", msg_class(&format!("{e:#}"), 40)));
            return;
        }
    };
    let mut members = vec![];
    let mut nets = vec![];
    for i in 0..dc.trains.len() {
        if let Ok(Ok((n, _))) = est_times_for(&b, i) {
            members.push(i);
            nets.push(n);
        }
    }
    if members.is_empty() {
        cx.discard("no_train_with_est_times");
        return;
    }
    let slts: Vec<_> = members.iter().map(|i| b.slts[*i].clone()).collect();
    let plan = match catch(|| altrios_core::meet_pass::dispatch::run_dispatch(&b.corridor.links, &slts, nets, false, false)) {
        Ok(Ok(p)) => p,
        _ => {
            // dispatch errors / unwinds are C05's business
            cx.discard("dispatch_failed");
            return;
        }
    };
    let mut any_wait = false;
    for (t, path) in plan.iter().enumerate() {
        // a plan entry without a finite time is C05's finding (arrival-time-not-finite); fed to
        // walk_timed_path it makes `while state.time < time_extend` spin for ever, so such
        // trains are not walked here
        if path.iter().any(|p| !p.time.value.is_finite()) {
            cx.label("timed_path_with_non_finite_time_not_walked");
            continue;
        }
        let ti = members[t];
        let spec = &dc.trains[ti].train;
        let route: Vec<usize> = path.iter().map(|p| p.link_idx.idx()).collect();
        let links = route_specs(&dc.net, &b.corridor, &route, spec.train_type);
        let tc = TrainCase { links, train: spec.clone(), mode: 3, trace: vec![], save_interval: Some(1), simulation_days: None, init_speed_zero: false, also_real_walk: false, scenario_year: None, and_parts: false, init_offset_extra: 0.0, hand_assembled: false, init_offset_abs: None, timed_speed: 0.0, brake_ramp_up: None };
        let mut sim = b.slts[ti].clone();
        sim.set_save_interval(Some(1));
        let mut run = TrainRun::empty_pub();
        run.built = true;
        let r = catch(|| sim.walk_timed_path(&b.corridor.links, path));
        match r {
            Ok(Ok(())) => {}
            Ok(Err(e)) => run.result = Err(format!("{e:#}")),
            Err(p) => {
                run.result = Err(format!("panic: {}", p.msg));
                run.panic = Some(p);
            }
        }
        run.states = sim.history.state_vec();
        run.final_state = Some(sim.state);
        run.offset_end = sim.offset_end().value;
        run.stop_curve_start = stop_curve_start(&sim);
        cx.count("saved_steps", run.states.len() as u64);
        match &run.result {
            Ok(()) => cx.label("timed_run_ok"),
            Err(e) => cx.label(&format!("timed_err:{}", msg_class(e.lines().last().unwrap_or(""), 50))),
        }
        // the train had to wait for its authority somewhere (speed 0 away from both ends)
        let l = spec.length();
        if run.states.iter().any(|s| s.speed.value == 0.0 && s.offset.value > l + 50.0 && s.offset.value < run.offset_end - 400.0) {
            any_wait = true;
        }
        // observation, not asserted (the statement speaks of the sim's own path):
        // walk_timed_path never extends the path with the last planned link
        let total: f64 = tc.links.iter().map(|x| x.length).sum();
        cx.label_if((run.offset_end - total).abs() > 1e-6, "timed_walk_path_shorter_than_planned_route");
        if run.offset_end == 0.0 {
            // single-link plan: no path at all, the train never moves; nothing to observe
            cx.label("timed_walk_with_empty_path");
            continue;
        }
        check_c03_run_opts(&tc, &run, cx, true);
    }
    cx.label_if(any_wait, "train_waited_for_authority");
    cx.label_if(plan.len() >= 2, "multi_train_timed");
}

pub struct C03;
impl C03 {
    fn gen(g: &mut Gen, tier: Tier) -> C03Case {
        if g.bool(0.12) {
            let dc = crate::props::corridor::gen_dispatch_case(g, 3, &crate::gen::net_corridor::CorridorOpts { max_stages: 5, max_seg: 9000.0, p_branch: 0.3, p_bypass: 0.2, ..Default::default() });
            return C03Case::Timed { timed: dc };
        }
        C03Case::Chain(gen_slts_case(g, tier, false))
    }
    fn check(case: &C03Case, cx: &mut Ctx) {
        let case = match case {
            C03Case::Timed { timed } => {
                check_timed(timed, cx);
                return;
            }
            C03Case::Chain(c) => c,
        };
        let run = run_case(case);
        if !run.built {
            cx.discard(&format!("build_err:{}", msg_class(&run.build_err, 50)));
            return;
        }
        cx.label(if case.mode == 1 { "whole_path" } else { "link_by_link" });
        cx.count("saved_steps", run.states.len() as u64);
        match &run.result {
            Ok(()) => cx.label("run_ok"),
            Err(e) => {
                cx.label("run_err");
                cx.label(&format!("err:{}", msg_class(e.lines().last().unwrap_or(""), 60)));
            }
        }
        check_c03_run(case, &run, cx);
    }
}
impl Property for C03 {
    fn id(&self) -> &'static str {
        "C03"
    }
    fn cases(&self, tier: Tier) -> usize {
        match tier {
            Tier::Quick => 9000,
            Tier::Thorough => 72000,
        }
    }
    fn tape_len(&self, _t: Tier) -> usize {
        6144
    }
    crate::typed_property!(C03, C03Case);
    fn rule(&self) -> String {
        "speed-limited runs over generated chain networks (grades <= 1 %, 1-7 restrictions per link incl. short higher-speed windows, head/tail-end sets), whole path + walk() or link-by-link extend_path interleaved with step() (88 % together), or 1-3 trains through the real pipeline make_est_times -> run_dispatch -> walk_timed_path on a generated corridor (12 %); every saved step: speed >= 0, speed <= independently computed posted limit at the position, speed <= limit in force (as evaluated on the next step), speed_target <= speed_limit, offset non-decreasing; Ok run ends at rest within [end-1000 ft, end]; Err has text; any unwind is a violation. Non-trivial: >= 200 saved steps with at least one limit drop that required braking".into()
    }
    fn assumptions(&self) -> Vec<String> {
        vec![
            "first link >= 4-9 km + train length in 90 % of cases (backward braking curve must fit; shorter ones exercise the descriptive-error path)".into(),
            "trains 3-100 cars, consist 0.7-2.5 W/kg; runs that return Err (insufficient power / braking force) are accepted outcomes".into(),
            "posted limit uses half-open coverage [start, end(+length)); position clamped just inside the path end".into(),
            "non-negative speed / non-decreasing offset are checked with an absolute tolerance of 1e-4 (m/s, m): the residue of the last integration step of a train that stalls on a grade (observed: -1.3e-6 m/s for one step, then the descriptive insufficient-power error) is not a reversal".into(),
        ]
    }
    fn panic_is_violation(&self) -> bool {
        true
    }
    fn case_timeout_s(&self) -> u64 {
        300
    }
}
