//! C03 — a speed-limited train never overspeeds, never reverses, stops inside its path, never
//! panics.  Whole-path and link-by-link schedules here; the timed-path schedule (dispatch
//! output) lives in the corridor module.

use crate::engine::*;
use crate::gen::net_chain::*;
use crate::gen::train::*;
use crate::props::speed_profile::{posted, SpeedCase};
use crate::props::train_run::*;

pub fn gen_slts_case(g: &mut Gen, _tier: Tier, allow_dummy: bool) -> TrainCase {
    let train = gen_train(
        g,
        &TrainOpts { allow_dummy, max_cars: 100, min_w_per_kg: 0.7, max_w_per_kg: 2.5, ..Default::default() },
    );
    let tp = train.params();
    // 30 % simple profiles (at most one restriction per link, no gates): with a monotone
    // limit profile ahead any overspeed is unambiguous (cf. window_class)
    let simple = g.bool(0.3);
    let o = ChainOpts {
        max_links: 4,
        max_grade: 0.01,
        max_len: 8000.0,
        max_restr: if simple { 1 } else { 7 },
        gates: !simple,
        multi_type: !simple,
        ..Default::default()
    };
    // first link long enough for the backward braking curve (10 % short ones exercise the
    // descriptive-error path)
    let first_min = if g.bool(0.1) { 0.0 } else { g.grid(4000.0, 9000.0, 10) + tp.length };
    let links = gen_links_for(g, &tp, &o, tp.length + 1500.0, first_min);
    let mode = if g.bool(0.6) { 1 } else { 2 };
    TrainCase { links, train, mode, trace: vec![], save_interval: Some(1), simulation_days: None }
}

pub fn speed_case_of(case: &TrainCase) -> SpeedCase {
    SpeedCase { tp: case.train.params(), links: case.links.clone(), partition: vec![case.links.len()] }
}

/// Geometric class of a position with respect to the posted profile ahead of it.  The known
/// braking-curve defect (curve points planted in an earlier zone keep the speed / target of
/// a later zone) needs a non-monotone limit profile within braking distance: the limit both
/// rises and falls within the next 2 km (the stop at the end of the path counts as a fall).
/// With a monotone profile ahead the curve construction is sound, so any violation there is
/// reported as new.
pub fn window_class(sc: &SpeedCase, b: &[f64], x: f64) -> &'static str {
    let end = *b.last().unwrap();
    if x >= end - 150.0 {
        // last metres before the stop at the end of the path: a second known defect — the
        // stopping curve is a step function sampled once per time step, a strongly braked
        // train starts braking up to one step late and meets the next curve point too fast
        return ":final-approach";
    }
    // exact breakpoints of the posted profile in (x, x + 2000]
    let mut bps: Vec<f64> = vec![];
    for (j, l) in sc.links.iter().enumerate() {
        bps.push(b[j]);
        for set in &l.sets {
            for (a, e, _) in &set.limits {
                bps.push(b[j] + a);
                bps.push(b[j] + e);
                bps.push(b[j] + e + sc.tp.length);
            }
        }
    }
    let hi = x + 2000.0;
    bps.retain(|p| *p > x && *p < hi && *p < end);
    bps.push(x);
    bps.push(hi.min(end));
    bps.sort_by(|a, c| a.partial_cmp(c).unwrap());
    bps.dedup();
    let mut rise = false;
    let mut fall = hi >= end;
    let mut prev = posted(sc, b, x.min(end - 1e-9));
    for w in bps.windows(2) {
        let m = 0.5 * (w[0] + w[1]);
        let p = posted(sc, b, m);
        if p > prev {
            rise = true;
        }
        if p < prev {
            fall = true;
        }
        prev = p;
    }
    if rise && fall {
        ":non-monotone-limits-ahead"
    } else {
        ""
    }
}

pub fn check_c03_run(case: &TrainCase, run: &TrainRun, cx: &mut Ctx) {
    let sc = speed_case_of(case);
    let b = crate::props::speed_profile::bases(&sc);
    let st = &run.states;
    let tag = |n: &str| format!("C03|{n}");
    if let Some(p) = &run.panic {
        let wc = st.last().map(|s| window_class(&sc, &b, s.offset.value)).unwrap_or("");
        cx.fail(
            tag(&format!("panic|{}{wc}", p.class())),
            format!("run unwound: {} at {}:{} after {} saved steps", p.msg, p.file, p.line, st.len()),
        );
    }
    if let Err(e) = &run.result {
        if e.contains(STALL_MSG) {
            // the bounded restatement of the walk loop saw 3000 motionless steps: ask the real
            // walk() (child process, no history) whether it returns
            cx.label("stall_predicted");
            match probe_real_walk(case, 10) {
                Some(r) => cx.label(if r.contains("RETURNED ok") { "stall_probe_returned_ok" } else { "stall_probe_returned_err" }),
                None => cx.fail(tag("hang|walk-never-returns-on-stalled-train"), format!("the train sits at speed 0 without progress ({e}) and the real walk() did not return within 10 s")),
            }
        }
        if e.trim().is_empty() {
            cx.fail(tag("err|empty-error-text"), "run returned an error without text");
        }
    }
    let mut braked = false;
    for k in 0..st.len() {
        let s = &st[k];
        let v = s.speed.value;
        let x = s.offset.value;
        if !(v >= -1e-6) {
            cx.fail(tag("speed|negative"), format!("saved step {k}: speed {v} at offset {x}"));
        }
        let p = posted(&sc, &b, x.min(*b.last().unwrap() - 1e-9));
        if !(v <= p * (1.0 + 1e-9) + 1e-9) {
            let wc = window_class(&sc, &b, x);
            cx.fail(tag(&format!("speed|above-posted-limit{wc}")), format!("saved step {k}: speed {v} > posted limit {p} at offset {x}"));
        }
        if k >= 1 {
            if !(s.speed_target.value <= s.speed_limit.value * (1.0 + 1e-12)) {
                let wc = window_class(&sc, &b, st[k - 1].offset.value);
                cx.fail(tag(&format!("target|above-limit-in-force{wc}")), format!("saved step {k}: speed_target {} > speed_limit {} at offset {}", s.speed_target.value, s.speed_limit.value, st[k - 1].offset.value));
            }
            if !(s.offset.value >= st[k - 1].offset.value - 1e-6) {
                cx.fail(tag("offset|moved-backwards"), format!("saved step {k}: offset {} -> {}", st[k - 1].offset.value, s.offset.value));
            }
            // limit in force at the position of step k-1 is the one evaluated at step k
            let vp = st[k - 1].speed.value;
            if !(vp <= s.speed_limit.value * (1.0 + 1e-9) + 1e-9) {
                let wc = window_class(&sc, &b, st[k - 1].offset.value);
                cx.fail(tag(&format!("speed|above-limit-in-force{wc}")), format!("saved step {k}: speed {vp} at offset {} > limit in force {} (braking curve / posted)", st[k - 1].offset.value, s.speed_limit.value));
            }
            if s.speed_limit.value < st[k - 1].speed_limit.value && k > 1 {
                braked = true;
            }
        }
    }
    if run.result.is_ok() && run.panic.is_none() {
        if let Some(fs) = &run.final_state {
            let end = run.offset_end;
            let x = fs.offset.value;
            if !(x >= end - 1000.0 * 0.3048 - 1e-6) {
                cx.fail(tag("stop|short-of-window"), format!("run ended Ok at offset {x}, path end {end}"));
            }
            if !(x <= end + 1e-6) {
                cx.fail(tag("stop|beyond-end-of-path"), format!("run ended Ok at offset {x} beyond path end {end} (speed {})", fs.speed.value));
            }
            if fs.speed.value != 0.0 {
                cx.fail(tag("stop|not-at-rest"), format!("run ended Ok with speed {} at offset {x}, path end {end}", fs.speed.value));
            }
        }
    }
    cx.label_if(braked, "limit_drop_ahead_braking");
    if braked && st.len() >= 200 {
        cx.nontrivial();
    }
}

pub struct C03;
impl C03 {
    fn gen(g: &mut Gen, tier: Tier) -> TrainCase {
        gen_slts_case(g, tier, false)
    }
    fn check(case: &TrainCase, cx: &mut Ctx) {
        let run = run_case(case);
        if !run.built {
            cx.discard(&format!("build_err:{}", msg_class(&run.build_err, 50)));
            return;
        }
        cx.label(if case.mode == 1 { "whole_path" } else { "link_by_link" });
        cx.count("saved_steps", run.states.len() as u64);
        match &run.result {
            Ok(()) => cx.label("run_ok"),
            Err(e) => {
                cx.label("run_err");
                cx.label(&format!("err:{}", msg_class(e.lines().last().unwrap_or(""), 60)));
            }
        }
        check_c03_run(case, &run, cx);
    }
}
impl Property for C03 {
    fn id(&self) -> &'static str {
        "C03"
    }
    fn cases(&self, tier: Tier) -> usize {
        match tier {
            Tier::Quick => 3000,
            Tier::Thorough => 60000,
        }
    }
    fn tape_len(&self, _t: Tier) -> usize {
        6144
    }
    crate::typed_property!(C03, TrainCase);
    fn rule(&self) -> String {
        "speed-limited runs over generated chain networks (grades <= 1 %, 1-7 restrictions per link incl. short higher-speed windows, head/tail-end sets), whole path + walk() (60 %) or link-by-link extend_path interleaved with step() (40 %); every saved step: speed >= 0, speed <= independently computed posted limit at the position, speed <= limit in force (as evaluated on the next step), speed_target <= speed_limit, offset non-decreasing; Ok run ends at rest within [end-1000 ft, end]; Err has text; any unwind is a violation. Non-trivial: >= 200 saved steps with at least one limit drop that required braking".into()
    }
    fn assumptions(&self) -> Vec<String> {
        vec![
            "first link >= 4-9 km + train length in 90 % of cases (backward braking curve must fit; shorter ones exercise the descriptive-error path)".into(),
            "trains 3-100 cars, consist 0.7-2.5 W/kg; runs that return Err (insufficient power / braking force) are accepted outcomes".into(),
            "posted limit uses half-open coverage [start, end(+length)); position clamped just inside the path end".into(),
            "non-negative speed / non-decreasing offset are checked with an absolute tolerance of 1e-6 (m/s, m): rounding residue of the target-speed update is not a reversal".into(),
        ]
    }
    fn panic_is_violation(&self) -> bool {
        true
    }
    fn case_timeout_s(&self) -> u64 {
        300
    }
}
