//! C04 (no conflicting occupancy) and C05 (complete, valid plan or explicit error) over the
//! real pipeline make_est_times -> run_dispatch, observed through the `verif_hooks` observer.

use crate::engine::*;
use crate::gen::net_corridor::*;
use crate::props::c15::check_est_net;
use crate::props::corridor::*;
use altrios_core::meet_pass::dispatch::run_dispatch;
use altrios_core::meet_pass::est_times::EstTimeNet;
use altrios_core::train::LinkIdxTime;
use altrios_core::verif_hooks::{clear_dispatch_observer, set_dispatch_observer, DispatchPhase};
use serde_json::Value;
use std::cell::RefCell;
use std::rc::Rc;

pub const SPACING: f64 = 480.0;

#[derive(Clone, Debug, Default)]
pub struct Snap {
    pub moved: usize,
    /// (link, holding train) for every link whose last authority has not been cleared
    pub holders: Vec<(usize, usize)>,
    pub links_blocked: Vec<usize>,
    pub n_auths: usize,
    /// per train index (0 = the dummy): has completed its dispatch path
    pub finished: Vec<bool>,
}

#[derive(Clone, Debug)]
pub struct Auth {
    pub link: usize,
    pub train: usize,
    pub arrive_entry: f64,
    pub clear_entry: f64,
    pub arrive_exit: f64,
    pub clear_exit: f64,
}

#[derive(Clone, Debug)]
pub struct Node {
    pub kind: u8, // 0 arrive 1 clear 2 fake
    pub link: usize,
    pub time: f64,
    pub est_idx: usize,
}

pub struct DispatchRun {
    pub built: Built,
    /// indices (into case.trains) of the trains that took part
    pub members: Vec<usize>,
    pub est: Vec<EstTimeNet>,
    pub dropped: Vec<(usize, String)>,
    pub plan: Result<Vec<Vec<LinkIdxTime>>, String>,
    pub panic: Option<PanicRec>,
    pub snaps: Vec<Snap>,
    /// state at the moment the free-path update produced the errors `run_dispatch` returned:
    /// per train index the links it declares as blocked by itself, and `links_blocked`
    pub failed: Option<(Vec<Vec<usize>>, Vec<usize>)>,
    pub final_paths: Vec<Vec<Node>>,
    pub final_auths: Vec<Auth>,
}

fn parse_paths(v: &Value) -> Vec<Vec<Node>> {
    let mut out = vec![];
    if let Some(a) = v.as_array() {
        for td in a.iter().skip(1) {
            let mut p = vec![];
            if let Some(dp) = td["disp_path"].as_array() {
                for n in dp {
                    let kind = match n["link_event"]["est_type"].as_str().unwrap_or("") {
                        "Arrive" => 0,
                        "Clear" => 1,
                        _ => 2,
                    };
                    p.push(Node {
                        kind,
                        link: n["link_event"]["link_idx"].as_u64().unwrap_or(0) as usize,
                        // +inf is serialised as null
                        time: n["time_pass"].as_f64().unwrap_or(f64::INFINITY),
                        est_idx: n["est_idx"].as_u64().unwrap_or(0) as usize,
                    });
                }
            }
            out.push(p);
        }
    }
    out
}

pub fn run_scenario(case: &DispatchCase, require_faithful: bool) -> Result<DispatchRun, String> {
    let built = build(case).map_err(|e| format!("build_err:{}", msg_class(&format!("{e:#}"), 50)))?;
    let mut members = vec![];
    let mut est = vec![];
    let mut dropped = vec![];
    for i in 0..case.trains.len() {
        match est_times_for(&built, i) {
            Ok(Ok((net, _))) => {
                if require_faithful {
                    let mut scratch = Ctx::default();
                    check_est_net(&net.val, &built.corridor.links, &built.ods[i].0, &built.ods[i].1, case.trains[i].train.init_time, case.trains[i].train.length(), &mut scratch);
                    if scratch.fails.iter().any(|f| f.signature.contains("|route|") || f.signature.contains("|link|") || f.signature.contains("|graph|")) {
                        dropped.push((i, "est_net_not_route_faithful".into()));
                        continue;
                    }
                }
                members.push(i);
                est.push(net);
            }
            Ok(Err(e)) => {
                if std::env::var("VERIF_DUMP").is_ok() {
                    eprintln!("DUMP est_err train {i}: {e}");
                }
                dropped.push((i, format!("est_err:{}", msg_class(e.lines().last().unwrap_or(""), 40))))
            }
            Err(p) => dropped.push((i, format!("est_panic:{}", p.class()))),
        }
    }
    if members.is_empty() {
        return Err("no_train_with_est_times".into());
    }
    let slts: Vec<_> = members.iter().map(|i| built.slts[*i].clone()).collect();
    let snaps: Rc<RefCell<Vec<Snap>>> = Rc::new(RefCell::new(vec![]));
    let fin: Rc<RefCell<(Value, Vec<Auth>)>> = Rc::new(RefCell::new((Value::Null, vec![])));
    let failed: Rc<RefCell<Option<(Vec<Vec<usize>>, Vec<usize>)>>> = Rc::new(RefCell::new(None));
    {
        let snaps = snaps.clone();
        let fin = fin.clone();
        // livelock detection: run_dispatch is a deterministic loop over the state the observer
        // is shown; if that state (the cheap fingerprint first, then the complete serialised
        // train states and authorities) stays identical while the same train is selected
        // again and again, the loop can never end.  The observer then unwinds out of
        // run_dispatch, which is reported as a violation of "dispatch terminates" — a
        // deterministic prediction, not a time limit
        let mut rep: (u64, usize, Option<String>, usize) = (0, 0, None, 0); // cheap hash, cheap repeats, full image, full repeats
        let failed = failed.clone();
        set_dispatch_observer(Box::new(move |s| {
            if s.phase == DispatchPhase::Failed {
                *failed.borrow_mut() = Some((
                    s.train_disps.iter().map(|t| t.link_idxs_blocking().iter().map(|l| l.idx()).collect()).collect(),
                    s.links_blocked.iter().map(|t| t.map(|x| x.get() as usize).unwrap_or(0)).collect(),
                ));
                return;
            }
            if s.phase != DispatchPhase::Final {
                let mut h = 0xcbf29ce484222325u64 ^ s.train_idx as u64;
                for auths in s.link_disp_auths.iter() {
                    h = (h ^ auths.len() as u64).wrapping_mul(0x100000001b3);
                    for a in auths.iter() {
                        for x in [a.arrive_entry.value, a.arrive_exit.value, a.clear_entry.value, a.clear_exit.value, a.offset_front.value, a.offset_back.value] {
                            h = (h ^ x.to_bits()).wrapping_mul(0x100000001b3);
                        }
                    }
                }
                for t in s.links_blocked.iter() {
                    h = (h ^ t.map(|x| x.get() as u64).unwrap_or(0)).wrapping_mul(0x100000001b3);
                }
                if h == rep.0 {
                    rep.1 += 1;
                } else {
                    rep = (h, 0, None, 0);
                }
                if rep.1 >= 200 {
                    let img = serde_json::to_string(s.train_disps).unwrap_or_default();
                    if rep.2.as_deref() == Some(img.as_str()) {
                        rep.3 += 1;
                    } else {
                        rep.2 = Some(img);
                        rep.3 = 0;
                    }
                    if rep.3 >= 300 {
                        panic!("HARNESS-LIVELOCK: the dispatch loop selected train {} {} times in a row without any change of state", s.train_idx, rep.1);
                    }
                }
            }
            let mut holders = vec![];
            let mut n_auths = 0;
            for (k, auths) in s.link_disp_auths.iter().enumerate() {
                n_auths += auths.len();
                if let Some(a) = auths.last() {
                    if a.offset_back.value.is_finite() {
                        if let Some(t) = a.train_idx {
                            holders.push((k, t.get() as usize));
                        }
                    }
                }
            }
            if s.phase == DispatchPhase::Final {
                let mut auths = vec![];
                for (k, v) in s.link_disp_auths.iter().enumerate() {
                    for a in v.iter().skip(1) {
                        auths.push(Auth {
                            link: k,
                            train: a.train_idx.map(|t| t.get() as usize).unwrap_or(0),
                            arrive_entry: a.arrive_entry.value,
                            clear_entry: a.clear_entry.value,
                            arrive_exit: a.arrive_exit.value,
                            clear_exit: a.clear_exit.value,
                        });
                    }
                }
                *fin.borrow_mut() = (serde_json::to_value(s.train_disps).unwrap_or(Value::Null), auths);
            }
            snaps.borrow_mut().push(Snap {
                moved: s.train_idx,
                holders,
                links_blocked: s.links_blocked.iter().map(|t| t.map(|x| x.get() as usize).unwrap_or(0)).collect(),
                n_auths,
                finished: s.train_disps.iter().enumerate().map(|(i, t)| i > 0 && t.is_finished()).collect(),
            });
        }));
    }
    let links = built.corridor.links.clone();
    let est_in = est.clone();
    let r = catch(|| run_dispatch(&links, &slts, est_in, false, false).map_err(|e| format!("{e:#}")));
    let _ = clear_dispatch_observer();
    let (plan, panic) = match r {
        Ok(p) => (p, None),
        Err(p) => (Err(format!("panic: {}", p.msg)), Some(p)),
    };
    let snaps = snaps.borrow().clone();
    let (fv, final_auths) = fin.borrow().clone();
    let failed = failed.borrow().clone();
    Ok(DispatchRun { built, members, est, dropped, plan, panic, snaps, failed, final_paths: parse_paths(&fv), final_auths })
}

/// occupancy windows of one train from its final dispatch path: (link, enter, leave)
pub fn windows(path: &[Node]) -> Vec<(usize, f64, f64)> {
    let arrives: Vec<(usize, f64)> = path.iter().filter(|n| n.kind == 0).map(|n| (n.link, n.time)).collect();
    let clears: Vec<f64> = path.iter().filter(|n| n.kind == 1).map(|n| n.time).collect();
    let t_last = path.last().map(|n| n.time).unwrap_or(f64::INFINITY);
    let mut w = vec![];
    for (j, (l, t)) in arrives.iter().enumerate() {
        // the tail leaves arrives[j] when it clears the entry of arrives[j+1]
        let leave = clears.get(j + 1).copied().unwrap_or(t_last);
        w.push((*l, *t, leave));
    }
    w
}

fn dir_labels(case: &DispatchCase, run: &DispatchRun, cx: &mut Ctx) {
    scenario_labels(case, cx);
    cx.label(&format!("dispatched_trains_{}", run.members.len().min(8)));
    for (_, why) in &run.dropped {
        cx.label(&format!("dropped:{why}"));
    }
    match &run.plan {
        Ok(_) => cx.label("plan_ok"),
        Err(e) => {
            if std::env::var("VERIF_DUMP").is_ok() {
                eprintln!("DUMP plan_err {e}");
            }
            cx.label(&format!("plan_err:{}", msg_class(e.lines().map(|l| l.trim()).filter(|l| !l.is_empty() && !l.starts_with('[')).last().unwrap_or(""), 50)))
        }
    }
    cx.count("snapshots", run.snaps.len() as u64);
    cx.count("snapshots_with_a_held_segment", run.snaps.iter().filter(|s| !s.holders.is_empty()).count() as u64);
    cx.label_if(run.snaps.iter().any(|s| !s.holders.is_empty()), "some_snapshot_with_a_held_segment");
    cx.label_if(run.snaps.iter().any(|s| s.holders.iter().map(|h| h.1).collect::<std::collections::BTreeSet<_>>().len() >= 2), "some_snapshot_with_two_trains_holding");
}

// ---------------------------------------------------------------------------------------
// C04

/// Root-cause class for one family of symptoms: the dispatcher reads, per segment, only the
/// newest authority (`.last()`), which is right as long as trains leave a segment in the order
/// they entered it.  A train whose destination lies mid-line ends its run inside a segment
/// while a train ahead of it may still be there; its (released) authority then hides the
/// older one, the segment is published as free, and opposing trains are admitted.  Every
/// occupancy symptom in a scenario that contains such a train is filed under this class.
fn mid_line_class(case: &DispatchCase, cx: &mut Ctx) {
    if !case.trains.iter().any(|t| t.to.is_some()) {
        return;
    }
    // (the plan / timed-path symptoms of C04 and the two assertion unwinds of C05 are classified
    // where they are raised, by the segment or train they name: `ended_links`, `mid_line_panic`)
    const SYMPTOMS: [&str; 2] = ["C04|snapshot|", "C05|plan|arrival-time-not-finite"];
    for f in cx.fails.iter_mut() {
        if SYMPTOMS.iter().any(|s| f.signature.starts_with(s)) && !f.signature.ends_with(":a-train-ends-its-run-mid-line") {
            f.signature.push_str(":a-train-ends-its-run-mid-line");
        }
    }
}

/// The two occupancy assertions of `advance_rewind` name two trains.  Under the first-in-
/// first-out defect the *follower* on the segment is the train that has ended its run there:
/// "the back of A was placed prior to the front of the next train B" (B ended), "the front of A
/// was placed past the back of B" (A ended).  Only then is the unwind filed under the class.
fn mid_line_panic(case: &DispatchCase, run: &DispatchRun, msg: &str) -> &'static str {
    let nums: Vec<usize> = msg.split(|c: char| !c.is_ascii_digit()).filter(|w| !w.is_empty()).filter_map(|w| w.parse().ok()).collect();
    let ends_mid_line = |t: usize| t >= 1 && run.members.get(t - 1).map(|m| case.trains[*m].to.is_some()).unwrap_or(false);
    let follower = if msg.starts_with("The back of train") {
        nums.get(1)
    } else if msg.starts_with("The front of train") {
        nums.first()
    } else {
        None
    };
    if follower.map(|t| ends_mid_line(*t)).unwrap_or(false) {
        ":a-train-ends-its-run-mid-line"
    } else {
        ""
    }
}

pub fn check_c04(case: &DispatchCase, cx: &mut Ctx) {
    check_c04_inner(case, cx);
    mid_line_class(case, cx);
}

fn check_c04_inner(case: &DispatchCase, cx: &mut Ctx) {
    let run = match run_scenario(case, true) {
        Ok(r) => r,
        Err(e) => {
            cx.discard(&e);
            return;
        }
    };
    dir_labels(case, &run, cx);
    let links = &run.built.corridor.links;
    let flip = |k: usize| links[k].idx_flip.idx();
    let locked = |k: usize, m: usize| links[k].link_idxs_lockout.iter().any(|x| x.idx() == m) || links[m].link_idxs_lockout.iter().any(|x| x.idx() == k);
    // ---- oracle B: every snapshot
    for (si, s) in run.snaps.iter().enumerate() {
        for (i, (k, a)) in s.holders.iter().enumerate() {
            for (m, b) in s.holders.iter().skip(i + 1) {
                if a == b {
                    continue;
                }
                if flip(*k) == *m {
                    cx.fail("C04|snapshot|opposing-trains-hold-one-segment", format!("snapshot {si} (after moving train {}): train {a} holds link {k} while train {b} holds its flip {m}", s.moved));
                }
                if locked(*k, *m) {
                    cx.fail("C04|snapshot|mutually-exclusive-segments-held", format!("snapshot {si}: train {a} holds link {k} while train {b} holds locked-out link {m}"));
                }
            }
            // the opposite direction (and every locked-out link) names a blocking train
            let f = flip(*k);
            if f != 0 && s.links_blocked.get(f).copied().unwrap_or(0) == 0 {
                cx.fail("C04|snapshot|held-segment-not-blocked-for-opposite-direction", format!("snapshot {si}: train {a} holds link {k} but links_blocked[flip {f}] is empty"));
            }
            for lo in &links[*k].link_idxs_lockout {
                if s.links_blocked.get(lo.idx()).copied().unwrap_or(0) == 0 {
                    cx.fail("C04|snapshot|held-segment-lockout-not-blocked", format!("snapshot {si}: train {a} holds link {k} but links_blocked[lockout {}] is empty", lo.idx()));
                }
            }
        }
    }
    // ---- oracle A: final plan from the dispatch paths
    let mut meet = false;
    let mut headway_binding = false;
    if run.plan.is_ok() && run.final_paths.len() == run.members.len() {
        let wins: Vec<Vec<(usize, f64, f64)>> = run.final_paths.iter().map(|p| windows(p)).collect();
        let n = wins.len();
        let tol = 1e-6;
        // segments on which a train with a mid-line destination ends its run (every segment it
        // never clears), with their flips and everything declared mutually exclusive with either
        let mut ended: std::collections::BTreeSet<usize> = Default::default();
        for (t, p) in run.final_paths.iter().enumerate() {
            if case.trains[run.members[t]].to.is_none() {
                continue;
            }
            let n_clears = p.iter().filter(|x| x.kind == 1).count();
            for (j, w) in wins[t].iter().enumerate() {
                if j + 1 >= n_clears {
                    for l in [w.0, flip(w.0)] {
                        ended.insert(l);
                        for m in 1..links.len() {
                            if locked(l, m) {
                                ended.insert(m);
                                ended.insert(flip(m));
                            }
                        }
                    }
                }
            }
        }
        ended.remove(&0);
        let cls = |sig: &str, l1: usize, l2: usize| -> String {
            if ended.contains(&l1) || ended.contains(&l2) {
                format!("{sig}:a-train-ends-its-run-mid-line")
            } else {
                sig.to_string()
            }
        };
        for a in 0..n {
            for b in (a + 1)..n {
                // trips overlapping in time, opposite directions => a meet had to happen
                let (a0, a1) = (wins[a].first().map(|w| w.1).unwrap_or(0.0), wins[a].last().map(|w| w.2).unwrap_or(0.0));
                let (b0, b1) = (wins[b].first().map(|w| w.1).unwrap_or(0.0), wins[b].last().map(|w| w.2).unwrap_or(0.0));
                let opposing = case.trains[run.members[a]].east != case.trains[run.members[b]].east;
                if opposing && a0.max(b0) < a1.min(b1) {
                    meet = true;
                }
                for wa in &wins[a] {
                    for wb in &wins[b] {
                        let overlap = wa.2.min(wb.2) - wa.1.max(wb.1);
                        if flip(wa.0) == wb.0 && wa.0 != 0 && overlap > tol {
                            cx.fail(cls("C04|plan|opposing-trains-overlap-on-one-segment", wa.0, wb.0), format!("trains {} and {}: link {} occupied [{}, {}] and its flip {} occupied [{}, {}] (overlap {overlap} s)", a + 1, b + 1, wa.0, wa.1, wa.2, wb.0, wb.1, wb.2));
                        }
                        if locked(wa.0, wb.0) && overlap > tol {
                            cx.fail(cls("C04|plan|mutually-exclusive-segments-overlap", wa.0, wb.0), format!("trains {} and {}: link {} [{}, {}] vs locked-out link {} [{}, {}]", a + 1, b + 1, wa.0, wa.1, wa.2, wb.0, wb.1, wb.2));
                        }
                        if wa.0 == wb.0 {
                            // same direction: no overtaking inside a segment
                            let (first, second, fi, se) = if wa.1 <= wb.1 { (wa, wb, a, b) } else { (wb, wa, b, a) };
                            if second.2 < first.2 - tol {
                                cx.fail(cls("C04|plan|order-changed-inside-a-segment", wa.0, wb.0), format!("link {}: train {} enters at {} and leaves at {}, train {} enters at {} but leaves at {}", wa.0, fi + 1, first.1, first.2, se + 1, second.1, second.2));
                            }
                        }
                    }
                }
            }
        }
        // headway between trains that follow each other over a segment
        let mut by_link: std::collections::BTreeMap<usize, Vec<(f64, usize, bool)>> = Default::default();
        for (t, w) in wins.iter().enumerate() {
            for (l, t0, _) in w {
                by_link.entry(*l).or_default().push((*t0, t, true));
                by_link.entry(flip(*l)).or_default().push((*t0, t, false));
            }
        }
        for (l, mut users) in by_link {
            if l == 0 {
                continue;
            }
            users.sort_by(|x, y| x.0.partial_cmp(&y.0).unwrap());
            for w in users.windows(2) {
                // consecutive users, both in the direction of link l (no opposite user in between)
                if w[0].2 && w[1].2 && w[0].1 != w[1].1 {
                    let gap = w[1].0 - w[0].0;
                    if gap < SPACING - 1e-6 {
                        cx.fail(cls("C04|plan|headway-below-configured-spacing", l, l), format!("link {l}: train {} enters at {} and train {} follows at {} (gap {gap} s < {SPACING} s)", w[0].1 + 1, w[0].0, w[1].1 + 1, w[1].0));
                    }
                }
            }
        }
        // statistic: follower held exactly to the code-level rule (clear_entry + spacing)
        let mut per_link: std::collections::BTreeMap<usize, Vec<&Auth>> = Default::default();
        for a in &run.final_auths {
            per_link.entry(a.link).or_default().push(a);
        }
        for (_, v) in per_link {
            for w in v.windows(2) {
                if (w[1].arrive_entry - (w[0].clear_entry + SPACING)).abs() < 1e-6 {
                    headway_binding = true;
                }
            }
        }
        // ---- oracle C (black box): fronts of opposing trains never inside one segment together
        if let Ok(plan) = &run.plan {
            for a in 0..plan.len() {
                for b in (a + 1)..plan.len() {
                    for (ia, ea) in plan[a].iter().enumerate() {
                        for (ib, eb) in plan[b].iter().enumerate() {
                            if flip(ea.link_idx.idx()) != eb.link_idx.idx() || ea.link_idx.idx() == 0 {
                                continue;
                            }
                            let a_end = plan[a].get(ia + 1).map(|x| x.time.value).unwrap_or(ea.time.value);
                            let b_end = plan[b].get(ib + 1).map(|x| x.time.value).unwrap_or(eb.time.value);
                            let overlap = a_end.min(b_end) - ea.time.value.max(eb.time.value);
                            if overlap > tol {
                                cx.fail(cls("C04|timed-paths|fronts-of-opposing-trains-inside-one-segment", ea.link_idx.idx(), eb.link_idx.idx()), format!("trains {} and {}: link {} front inside [{}, {}], flip {} front inside [{}, {}]", a + 1, b + 1, ea.link_idx.idx(), ea.time.value, a_end, eb.link_idx.idx(), eb.time.value, b_end));
                            }
                        }
                    }
                }
            }
        }
    }
    cx.label_if(meet, "meet_happened");
    cx.label_if(headway_binding, "headway_binding");
    if meet || headway_binding {
        cx.nontrivial();
    }
}

// ---------------------------------------------------------------------------------------
// C05

pub fn check_c05(case: &DispatchCase, cx: &mut Ctx) {
    check_c05_inner(case, cx);
    mid_line_class(case, cx);
}

fn check_c05_inner(case: &DispatchCase, cx: &mut Ctx) {
    let run = match run_scenario(case, true) {
        Ok(r) => r,
        Err(e) => {
            cx.discard(&e);
            return;
        }
    };
    dir_labels(case, &run, cx);
    let links = &run.built.corridor.links;
    if let Some(p) = &run.panic {
        if p.msg.contains("HARNESS-LIVELOCK") {
            cx.fail("C05|hang|dispatch-loop-repeats-an-identical-state", p.msg.clone());
        } else {
            cx.fail(format!("C05|panic|{}{}", p.class(), mid_line_panic(case, &run, &p.msg)), format!("run_dispatch unwound: {} at {}:{}", p.msg, p.file, p.line));
        }
        return;
    }
    match &run.plan {
        Err(e) => {
            // an explicit error must name the trains it could not route (or be an input error)
            let named = e.contains("trains got stuck") || e.contains("unequal") || e.contains("Train") || e.contains("train");
            if e.trim().is_empty() || !named {
                cx.fail("C05|err|error-does-not-name-trains", format!("error text: {e:?}"));
            }
            cx.label("explicit_error");
            // "an error naming the trains that could not be routed": the dispatcher's own
            // consistency error "Occupancy conflict at link L between train A and train B" says
            // that B keeps L blocked.  At the moment the error is produced B must then declare L
            // among the links it blocks (the flip and the lockouts of what it occupies); a
            // conflict with a train that blocks nothing there is not a train that could not be
            // routed but a stale entry of the bookkeeping
            let words: Vec<&str> = e.split(|c: char| !c.is_alphanumeric()).filter(|w| !w.is_empty()).collect();
            if let Some((blocking, _)) = &run.failed {
                for w in words.windows(11) {
                    if w[0] == "Occupancy" && w[1] == "conflict" && w[3] == "link" && w[5] == "between" && w[6] == "train" && w[8] == "and" && w[9] == "train" {
                        if let (Ok(l), Ok(b)) = (w[4].parse::<usize>(), w[10].parse::<usize>()) {
                            cx.label("occupancy_conflict_reported");
                            if !blocking.get(b).map(|v| v.contains(&l)).unwrap_or(false) {
                                cx.fail("C05|err|conflict-reported-with-a-train-that-does-not-block-that-segment", format!("link {l}, train {b} blocks {:?}; error text: {}", blocking.get(b), e.lines().map(|x| x.trim()).filter(|x| !x.is_empty()).collect::<Vec<_>>().join(" | ").chars().take(300).collect::<String>()));
                            }
                        }
                    }
                }
            }
            if let Some(last) = run.snaps.last() {
                for w3 in words.windows(2) {
                    if w3[0] == "train" {
                        if let Ok(t) = w3[1].parse::<usize>() {
                            if last.finished.get(t).copied().unwrap_or(false) {
                                cx.fail("C05|err|error-names-a-train-that-had-completed-its-route", format!("train {t} had finished; error text: {}", e.lines().map(|l| l.trim()).filter(|l| !l.is_empty()).collect::<Vec<_>>().join(" | ").chars().take(300).collect::<String>()));
                                break;
                            }
                        }
                    }
                }
            }
        }
        Ok(plan) => {
            if plan.len() != run.members.len() {
                cx.fail("C05|plan|train-dropped-or-added", format!("{} trains in, {} routes out", run.members.len(), plan.len()));
                return;
            }
            for (t, path) in plan.iter().enumerate() {
                let ti = run.members[t];
                let (origins, dests) = &run.built.ods[ti];
                let depart = case.trains[ti].train.init_time;
                if path.is_empty() {
                    cx.fail("C05|plan|empty-route", format!("train {}", t + 1));
                    continue;
                }
                let first = path.first().unwrap();
                let last = path.last().unwrap();
                if !origins.contains(&(first.link_idx.idx() as u32)) {
                    cx.fail("C05|plan|route-does-not-start-at-an-origin", format!("train {}: first link {} origins {origins:?}", t + 1, first.link_idx.idx()));
                }
                if first.time.value < depart - 1e-6 {
                    cx.fail("C05|plan|starts-before-departure", format!("train {}: first time {} < departure {depart}", t + 1, first.time.value));
                }
                if !dests.contains(&(last.link_idx.idx() as u32)) {
                    cx.fail("C05|plan|route-does-not-end-at-a-destination", format!("train {}: last link {} destinations {dests:?}", t + 1, last.link_idx.idx()));
                }
                for w in path.windows(2) {
                    let l = &links[w[1].link_idx.idx()];
                    if l.idx_prev != w[0].link_idx && l.idx_prev_alt != w[0].link_idx {
                        cx.fail("C05|plan|route-not-contiguous", format!("train {}: link {} does not follow {}", t + 1, w[1].link_idx.idx(), w[0].link_idx.idx()));
                    }
                    if w[1].time.value < w[0].time.value - 1e-9 || w[1].time.value.is_nan() {
                        cx.fail("C05|plan|arrival-times-decrease", format!("train {}: {} then {}", t + 1, w[0].time.value, w[1].time.value));
                    }
                }
                if let Some(bad) = path.iter().find(|p| !p.time.value.is_finite()) {
                    // root-cause class: an earlier train's own route holds "arrive L" but no
                    // "clear L" for this link (its estimated run stopped before its tail had
                    // entered L), so L's entry is never released for followers
                    let l = bad.link_idx.idx();
                    let never_cleared = run.final_paths.iter().enumerate().any(|(u, dp)| {
                        u != t && dp.iter().any(|n| n.kind == 0 && n.link == l && n.time.is_finite()) && !dp.iter().any(|n| n.kind == 1 && n.link == l)
                    });
                    let class = if never_cleared { "follows-train-whose-route-lacks-clear-of-that-link" } else { "other" };
                    cx.fail(format!("C05|plan|arrival-time-not-finite:{class}"), format!("train {}: link {} at time {}", t + 1, l, bad.time.value));
                }
                // never faster than the train's own free-running times between consecutive
                // segments: sum of time_to_next along the est nodes the dispatch path names
                if let Some(dp) = run.final_paths.get(t) {
                    let est = &run.est[t].val;
                    let mut acc = 0.0;
                    let mut prev_arrive: Option<(f64, usize)> = None;
                    for (j, n) in dp.iter().enumerate() {
                        if n.kind == 0 {
                            if let Some((t0, l0)) = prev_arrive {
                                let dt = n.time - t0;
                                if dt < acc - 1e-6 {
                                    cx.fail("C05|plan|faster-than-free-running-time", format!("train {}: link {l0} -> {}: {dt} s planned, free-running {acc} s", t + 1, n.link));
                                }
                            }
                            prev_arrive = Some((n.time, n.link));
                            acc = 0.0;
                        }
                        // duration to the next dispatch node when it is the primary successor
                        if let Some(nx) = dp.get(j + 1) {
                            if n.est_idx < est.len() && est[n.est_idx].idx_next as usize == nx.est_idx {
                                acc += est[n.est_idx].time_to_next.value;
                            }
                        }
                    }
                    // the timed path is the arrive events of the dispatch path
                    let arr: Vec<(usize, f64)> = dp.iter().filter(|n| n.kind == 0).map(|n| (n.link, n.time)).collect();
                    if arr.len() != path.len() || arr.iter().zip(path.iter()).any(|(a, p)| a.0 != p.link_idx.idx() || a.1 != p.time.value) {
                        cx.fail("C05|plan|timed-path-differs-from-dispatch-path", format!("train {}", t + 1));
                    }
                }
            }
        }
    }
    // non-trivial: some train was re-routed off its shortest path or rewound
    let mut rerouted = false;
    for (t, dp) in run.final_paths.iter().enumerate() {
        let est = &run.est[t].val;
        let mut i = 0usize;
        let mut shortest = vec![];
        loop {
            shortest.push(i);
            let nx = est[i].idx_next as usize;
            if nx == 0 {
                break;
            }
            i = nx;
        }
        if dp.iter().map(|n| n.est_idx).collect::<Vec<_>>() != shortest {
            rerouted = true;
        }
    }
    let rewound = run.snaps.windows(2).any(|w| w[1].n_auths < w[0].n_auths);
    if std::env::var("VERIF_DUMP").is_ok() {
        eprintln!("DUMP final_paths {} members {} snaps {:?}", run.final_paths.len(), run.members.len(), run.snaps.iter().map(|s| s.n_auths).collect::<Vec<_>>());
        for dp in &run.final_paths {
            eprintln!("DUMP path est_idx {:?}", dp.iter().map(|n| n.est_idx).collect::<Vec<_>>());
            eprintln!("DUMP path nodes {:?}", dp.iter().map(|n| (n.kind, n.link, n.time.round())).collect::<Vec<_>>());
        }
        eprintln!("DUMP fwd {:?} rev {:?}", run.built.corridor.fwd, run.built.corridor.rev);
        for s in &run.snaps {
            eprintln!("DUMP snap moved {} holders {:?} n_auths {}", s.moved, s.holders, s.n_auths);
        }
        eprintln!("DUMP trains {:?}", case.trains.iter().map(|t| (t.east, t.train.init_time, t.train.length())).collect::<Vec<_>>());
    }
    cx.label_if(rerouted, "train_rerouted_off_shortest_path");
    cx.label_if(rewound, "train_rewound");
    // a train the dispatcher had to hold back against its own free-running schedule
    let mut held = false;
    for (t, dp) in run.final_paths.iter().enumerate() {
        let est = &run.est[t].val;
        if let (Some(first), Some(last)) = (dp.iter().find(|n| n.kind == 0), dp.iter().rev().find(|n| n.kind == 0)) {
            let free = est[last.est_idx].time_sched.value - est[first.est_idx].time_sched.value;
            if (last.time - first.time) > free + 1.0 {
                held = true;
            }
        }
    }
    cx.label_if(held, "train_held_back_by_dispatcher");
    let e = case.trains.iter().filter(|t| t.east).count();
    if rerouted || rewound || (held && run.members.len() >= 3 && e > 0 && e < case.trains.len()) {
        cx.nontrivial();
    }
}

fn dispatch_assumptions() -> Vec<String> {
    vec![
        "corridors of 2-7 alternating single / two-track stages (3 % single-stage), segments 1.5-20 km, two-track terminal yards in ~70 %, optional lockout declaration between the two tracks of one siding; 1-8 trains, both directions, departures 0-3600 s (20 % all equal), lengths 40-2300 m".into(),
        "estimated-time nets come from the real make_est_times; trains whose net cannot be built (Err / unwind: C15's findings) or is not route-faithful are left out of the scenario, the rest is dispatched".into(),
        "occupancy of segment K by a train = [arrive(K), clear(entry of the next segment)] from its final dispatch path; the last segment is held until the last node's time".into(),
        "headway: only the weakest reading is asserted (front-to-front entry gap >= 480 s between consecutive same-direction users with no opposite-direction user in between)".into(),
    ]
}

macro_rules! disp_prop {
    ($name:ident, $id:expr, $check:ident, $rule:expr) => {
        pub struct $name;
        impl $name {
            fn gen(g: &mut Gen, tier: Tier) -> DispatchCase {
                let max_trains = if tier == Tier::Thorough { 12 } else { 10 };
                gen_dispatch_case(g, max_trains, &CorridorOpts { p_lockout: 0.25, p_branch: 0.3, p_bypass: 0.3, p_short_east: 0.08, p_short_ends: std::env::var("VERIF_SHORT_ENDS").ok().and_then(|s| s.parse().ok()).unwrap_or(0.12), ..Default::default() })
            }
            fn check(c: &DispatchCase, cx: &mut Ctx) {
                $check(c, cx)
            }
        }
        impl Property for $name {
            fn id(&self) -> &'static str {
                $id
            }
            fn cases(&self, tier: Tier) -> usize {
                match tier {
                    Tier::Quick => 4500,
                    Tier::Thorough => 30000,
                }
            }
            fn tape_len(&self, _t: Tier) -> usize {
                12288
            }
            crate::typed_property!($name, DispatchCase);
            fn rule(&self) -> String {
                $rule.into()
            }
            fn assumptions(&self) -> Vec<String> {
                dispatch_assumptions()
            }
            fn panic_is_violation(&self) -> bool {
                true
            }
            fn case_timeout_s(&self) -> u64 {
                300
            }
        }
    };
}

disp_prop!(C04, "C04", check_c04,
    "generated corridor + 1-8 trains through make_est_times and run_dispatch with the verif_hooks observer; after every outer-loop iteration: no two trains hold a segment and its flip (or a locked-out segment), held segments are blocked for the opposite direction; final plan (from the dispatch paths): occupancy windows of opposing trains on one physical segment and of locked-out segments never overlap, same-direction trains never change order inside a segment, followers keep >= 480 s front-to-front; black-box: fronts of opposing trains are never inside one segment together. Non-trivial: two opposing trains whose trips overlap in time (a meet had to happen) or a follower held exactly to the spacing rule");
disp_prop!(C05, "C05", check_c05,
    "same scenarios; Ok(plan): one route per train, first link an origin at/after departure, last link a destination, contiguous in the network, non-decreasing finite times, each leg >= sum of the train's own time_to_next along the dispatch path, timed path == arrive events of the dispatch path; Err: names the trains; any unwind (asserts, debug asserts, index, overflow, std unsafe-precondition checks) or abort is a violation. Non-trivial: a train was re-routed off its shortest path or rewound (measured: not reached by this scenario family, see DESIGN.md), or >= 3 trains in both directions with at least one train held back against its own free-running schedule");
