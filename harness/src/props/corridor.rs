//! Shared scenario builder for the dispatch family (C15, C04, C05, C18, C03 timed paths):
//! corridor network + trains -> SpeedLimitTrainSims -> estimated-time networks -> dispatch.

use crate::engine::*;
use crate::gen::net_corridor::*;
use crate::gen::train::*;
use crate::props::train_run::location;
use altrios_core::consist::Consist;
use altrios_core::meet_pass::est_times::{make_est_times, EstTimeNet};
use altrios_core::track::{Link, Location};
use altrios_core::train::SpeedLimitTrainSim;
use serde::{Deserialize, Serialize};
use std::collections::HashMap;

#[derive(Serialize, Deserialize, Clone, Debug)]
pub struct CorrTrain {
    pub east: bool,
    /// eastern terminal = the branch terminal instead of the main-line one
    #[serde(default)]
    pub branch: bool,
    pub train: TrainSpec,
    /// main-line stage the train starts on / ends on instead of the terminal in its direction
    /// (intermediate origin / destination)
    #[serde(default)]
    pub from: Option<usize>,
    #[serde(default)]
    pub to: Option<usize>,
}

#[derive(Serialize, Deserialize, Clone, Debug)]
pub struct DispatchCase {
    pub net: CorridorSpec,
    pub trains: Vec<CorrTrain>,
}

pub struct Built {
    pub corridor: Corridor,
    pub slts: Vec<SpeedLimitTrainSim>,
    /// per train: origin link indices, destination link indices
    pub ods: Vec<(Vec<u32>, Vec<u32>)>,
}

pub fn od_links(c: &Corridor, east: bool, branch: bool) -> (Vec<u32>, Vec<u32>) {
    od_links_at(c, east, branch, None, None)
}

pub fn od_links_at(c: &Corridor, east: bool, branch: bool, from: Option<usize>, to: Option<usize>) -> (Vec<u32>, Vec<u32>) {
    // eastern terminal: last main-line stage, or last branch stage
    let e = if branch && c.fwd.len() > c.n_main { c.fwd.len() - 1 } else { c.n_main - 1 };
    let st = |i: Option<usize>, dflt: usize| i.filter(|k| *k < c.n_main).unwrap_or(dflt);
    if east {
        (c.fwd[st(from, 0)].clone(), c.fwd[st(to, e)].clone())
    } else {
        (c.rev[st(from, e)].clone(), c.rev[st(to, 0)].clone())
    }
}

pub fn build(case: &DispatchCase) -> anyhow::Result<Built> {
    let corridor = case.net.build();
    let mut slts = vec![];
    let mut ods = vec![];
    for (i, t) in case.trains.iter().enumerate() {
        let (o, d) = od_links_at(&corridor, t.east, t.branch, t.from, t.to);
        let mut lm: HashMap<String, Vec<Location>> = HashMap::new();
        lm.insert("O".into(), o.iter().map(|l| location("O", *l)).collect());
        lm.insert("D".into(), d.iter().map(|l| location("D", *l)).collect());
        let tsb = t.train.build_builder(None, Some(("O", "D")))?;
        let mut s = tsb.make_speed_limit_train_sim(&lm, None, None, None)?;
        s.train_id = format!("train{i}");
        slts.push(s);
        ods.push((o, d));
    }
    Ok(Built { corridor, slts, ods })
}

pub type EstResult = Result<Result<(EstTimeNet, Consist), String>, PanicRec>;

pub fn est_times_for(b: &Built, i: usize) -> EstResult {
    let links: &[Link] = &b.corridor.links;
    catch(|| make_est_times(b.slts[i].clone(), links).map_err(|e| format!("{e:#}")))
}

// ---------------------------------------------------------------------------------------
// generators

pub fn gen_corr_train(g: &mut Gen, max_len: f64) -> TrainSpec {
    // robust trains: one or two car types, conventional units with constant efficiency maps
    // and harmonised ratings (the dispatch family is not about powertrain limits)
    let mut t = gen_train(
        g,
        &TrainOpts { max_cars: 110, allow_dummy: false, allow_overrides: false, min_w_per_kg: 1.0, max_w_per_kg: 2.5 },
    );
    // shorten until it fits the terminal
    while t.length() > max_len {
        for c in t.cars.iter_mut() {
            c.n = (c.n * 2 / 3).max(1);
        }
        if t.cars.iter().all(|c| c.n == 1) {
            break;
        }
    }
    let n_units = t.units.len().max(1);
    t.units.clear();
    let target = (t.towed_mass() * g.f64(1.2, 2.5)).max(1.0e6);
    let base = (target / n_units as f64).clamp(0.8e6, 6.0e6);
    for _ in 0..n_units {
        let mut u = crate::gen::powertrain::gen_unit_with_base(g, false, (base / 1000.0).round() * 1000.0);
        u.flatten_maps();
        u.harmonise_ratings();
        t.units.push(u);
    }
    t
}

pub fn gen_dispatch_case(g: &mut Gen, max_trains: usize, o: &CorridorOpts) -> DispatchCase {
    let net = gen_corridor(g, o);
    let n = g.usize(1, max_trains);
    // short eastern end: nothing originates on the eastern main-line terminal
    let short_east = net.stages.last().unwrap().main.length < 2000.0;
    let east_len = if short_east { f64::INFINITY } else { net.stages.last().unwrap().main.length };
    let term = net.stages.first().unwrap().main.length.min(east_len);
    let term_side = net
        .stages
        .first()
        .unwrap()
        .side
        .as_ref()
        .map(|s| s.length)
        .unwrap_or(f64::INFINITY)
        .min(net.stages.last().unwrap().side.as_ref().map(|s| s.length).unwrap_or(f64::INFINITY));
    let bterm = net
        .branch
        .as_ref()
        .and_then(|b| b.stages.last())
        .map(|s| s.main.length.min(s.side.as_ref().map(|x| x.length).unwrap_or(f64::INFINITY)))
        .unwrap_or(f64::INFINITY);
    // corridors with short ends: trains may be (much) longer than their terminal segments
    let max_len = term.min(term_side).min(bterm) - 200.0;
    let mut trains = vec![];
    // departure pattern: all equal / bunched within a few minutes / spread over an hour
    let pattern = g.weighted(&[2, 4, 4]);
    for i in 0..n {
        let mut t = gen_corr_train(g, max_len);
        t.init_time = match pattern {
            0 => 0.0,
            1 => Gen::round(g.f64(0.0, 600.0), 0),
            _ => Gen::round(g.f64(0.0, 3600.0), 0),
        };
        let mut east = g.bool(0.5);
        let mut branch = net.branch.is_some() && g.bool(0.5);
        let _ = i;
        // 8 % of the trains: intermediate origin and / or destination on the main line, at least 9 km apart
        // (shorter routes only reproduce the look-ahead finding of C15); the origin stage must
        // hold the train
        let (mut from, mut to) = (None, None);
        let nm = net.stages.len();
        if nm >= 3 && g.bool(0.08) {
            let a = g.usize(0, nm - 1);
            let b = g.usize(0, nm - 1);
            let (lo, hi) = (a.min(b), a.max(b));
            let dist: f64 = net.stages[lo..=hi].iter().map(|s| s.main.length).sum();
            let (o_st, d_st) = if east { (lo, hi) } else { (hi, lo) };
            let o_len = net.stages[o_st].main.length.min(net.stages[o_st].side.as_ref().map(|x| x.length).unwrap_or(f64::INFINITY));
            if lo < hi && dist >= 9000.0 && o_len >= t.length() + 200.0 && o_len >= 2500.0 {
                from = if o_st == 0 || o_st == nm - 1 || std::env::var("VERIF_NO_MID_ORIGINS").is_ok() { None } else { Some(o_st) };
                to = if d_st == 0 || d_st == nm - 1 || std::env::var("VERIF_NO_MID_DEST").is_ok() { None } else { Some(d_st) };
                if to.is_some() || (!east && from.is_some()) {
                    // the branch terminal is only an eastern end point
                    branch = branch && (if east { to.is_none() } else { from.is_none() });
                }
                // a branch train must still pass the junction
                if let (true, Some(br)) = (branch, net.branch.as_ref()) {
                    let ok = if east { from.map(|f| f <= br.at).unwrap_or(true) } else { to.map(|t| t <= br.at).unwrap_or(true) };
                    if !ok {
                        branch = false;
                    }
                }
            }
        }
        if short_east && !east && !branch && from.is_none() {
            // westbound on the main line: start on an interior stage that holds the train
            let cands: Vec<usize> = (1..nm.saturating_sub(2))
                .filter(|k| {
                    let st = &net.stages[*k];
                    let l = st.main.length.min(st.side.as_ref().map(|x| x.length).unwrap_or(f64::INFINITY));
                    l >= 2500.0 && l >= t.length() + 200.0
                })
                .collect();
            if cands.is_empty() {
                east = true;
                to = None;
            } else {
                // the stage next to the short end most of the time: its flip is the trailing
                // segment of an eastbound train that ends its run
                let k = if g.bool(0.6) { *cands.last().unwrap() } else { cands[g.idx(cands.len())] };
                from = Some(k);
                if to.map(|d| d >= k).unwrap_or(false) {
                    to = None;
                }
            }
        }
        trains.push(CorrTrain { east, branch, train: t, from, to });
    }
    DispatchCase { net, trains }
}

pub fn scenario_labels(case: &DispatchCase, cx: &mut Ctx) {
    let n = case.net.stages.len();
    cx.label(&format!("stages_{}", n.min(7)));
    cx.label(&format!("interior_sidings_{}", case.net.n_sidings_interior().min(3)));
    let yard0 = case.net.stages[0].side.is_some();
    let yard1 = case.net.stages[n - 1].side.is_some();
    cx.label_if(yard0 && yard1, "yard_terminals");
    cx.label_if(case.net.total_main_length() < 5.0 * 1609.344, "short_route");
    cx.label_if(case.net.lockout_stage.is_some(), "lockout_declared");
    cx.label_if(case.net.lockout_crossing, "branch_crosses_the_lockout_siding");
    cx.label_if(case.trains.iter().any(|t| t.from.is_some()), "train_with_intermediate_origin");
    cx.label_if(case.trains.iter().any(|t| t.to.is_some()), "train_with_intermediate_destination");
    cx.label_if(case.trains.iter().any(|t| t.to.map(|k| case.net.stages[k].main.length < t.train.length()).unwrap_or(false)), "train_ends_on_a_stage_shorter_than_itself");
    cx.label_if(case.net.stages[n - 1].main.length < 2000.0, "short_eastern_end");
    cx.label_if(
        case.trains.iter().any(|t| t.east && !t.branch && t.to.is_none() && n >= 2 && t.train.length() > case.net.stages[n - 1].main.length + case.net.stages[n - 2].main.length),
        "train_ends_its_run_over_three_or_more_segments",
    );
    cx.label_if(case.net.branch.is_some(), "y_junction");
    cx.label_if(case.net.bypass.is_some(), "bypass_track_around_a_siding");
    cx.label_if(case.trains.iter().any(|t| t.branch) && case.trains.iter().any(|t| !t.branch), "trains_to_both_eastern_terminals");
    let e = case.trains.iter().filter(|t| t.east).count();
    cx.label_if(e > 0 && e < case.trains.len(), "both_directions");
    cx.label(&format!("trains_{}", case.trains.len().min(8)));
}
