//! C15 — the estimated-time network is well-formed, route-faithful and time-consistent.

use crate::engine::*;
use crate::gen::net_corridor::*;
use crate::props::corridor::*;
use altrios_core::meet_pass::disp_structs::EstType;
use altrios_core::meet_pass::est_times::EstTime;
use altrios_core::track::Link;

const MAX_WALKS: usize = 4096;

pub struct NetView<'a> {
    pub v: &'a [EstTime],
}

impl<'a> NetView<'a> {
    pub fn n(&self) -> usize {
        self.v.len()
    }
    /// outgoing edges (child, is_primary)
    pub fn out(&self, i: usize) -> Vec<(usize, bool)> {
        let e = &self.v[i];
        let mut o = vec![];
        if e.idx_next != 0 {
            o.push((e.idx_next as usize, true));
        }
        if e.idx_next_alt != 0 {
            o.push((e.idx_next_alt as usize, false));
        }
        o
    }
    /// incoming edges as named by the node itself (parent, via idx_prev?)
    pub fn inc(&self, i: usize) -> Vec<(usize, bool)> {
        let e = &self.v[i];
        let mut o = vec![];
        if e.idx_prev != 0 || i == 1 {
            o.push((e.idx_prev as usize, true));
        }
        if e.idx_prev_alt != 0 {
            o.push((e.idx_prev_alt as usize, false));
        }
        o
    }
}

/// weight of edge p -> n: the parent's duration on its primary edge, 0 on an alternate edge
fn w(v: &[EstTime], p: usize, n: usize) -> f64 {
    if v[p].idx_next as usize == n {
        v[p].time_to_next.value
    } else {
        0.0
    }
}

pub fn check_est_net(v: &[EstTime], links: &[Link], origins: &[u32], dests: &[u32], depart: f64, train_len: f64, cx: &mut Ctx) {
    let net = NetView { v };
    let n = net.n();
    let tag = |s: &str| format!("C15|{s}");
    if n < 3 {
        cx.fail(tag("shape|too-few-nodes"), format!("{n} nodes"));
        return;
    }
    let last = n - 1;
    if std::env::var("VERIF_DUMP").is_ok() {
        for (i, e) in v.iter().enumerate() {
            eprintln!("DUMP est {i}: {:?} link {} sched {:.2} to_next {:.3} dist {:.1} speed {:.3} next {} alt {} prev {} palt {}", e.link_event.est_type, e.link_event.link_idx.idx(), e.time_sched.value, e.time_to_next.value, e.dist_to_next.value, e.speed.value, e.idx_next, e.idx_next_alt, e.idx_prev, e.idx_prev_alt);
        }
    }
    // ---- (1) index ranges and reciprocity
    for (i, e) in v.iter().enumerate() {
        for (name, x) in [("idx_next", e.idx_next), ("idx_next_alt", e.idx_next_alt), ("idx_prev", e.idx_prev), ("idx_prev_alt", e.idx_prev_alt)] {
            if x as usize >= n {
                cx.fail(tag("link|index-out-of-range"), format!("node {i}: {name} = {x} but the net has {n} nodes"));
                return;
            }
        }
        if (e.idx_next == 0) != (i == last) {
            cx.fail(tag("link|missing-or-extra-idx_next"), format!("node {i} of {n}: idx_next = {}", e.idx_next));
        }
        if e.idx_next_alt != 0 && e.idx_next == 0 {
            cx.fail(tag("link|alternate-without-primary"), format!("node {i}"));
        }
        if e.link_event.est_type == EstType::Fake && e.idx_prev_alt != 0 && e.idx_next_alt != 0 {
            cx.fail(tag("link|fake-node-with-both-alternates"), format!("node {i}"));
        }
    }
    if cx.failed() {
        return;
    }
    for i in 0..n {
        for (c, _) in net.out(i) {
            if !net.inc(c).iter().any(|(p, _)| *p == i) {
                cx.fail(tag("link|forward-edge-not-reciprocated"), format!("node {i} -> {c}, but {c} names prev {} / prev_alt {}", v[c].idx_prev, v[c].idx_prev_alt));
            }
        }
        if i >= 1 {
            for (p, _) in net.inc(i) {
                if !net.out(p).iter().any(|(c, _)| *c == i) {
                    cx.fail(tag("link|backward-edge-not-reciprocated"), format!("node {i} names predecessor {p}, but {p} has next {} / next_alt {}", v[p].idx_next, v[p].idx_next_alt));
                }
            }
        }
    }
    // ---- (2) acyclic, everything reachable from 0 and reaching the last node
    let mut indeg = vec![0usize; n];
    for i in 0..n {
        for (c, _) in net.out(i) {
            indeg[c] += 1;
        }
    }
    let mut order = vec![];
    let mut stack: Vec<usize> = (0..n).filter(|i| indeg[*i] == 0).collect();
    let roots = stack.clone();
    let mut deg = indeg.clone();
    while let Some(i) = stack.pop() {
        order.push(i);
        for (c, _) in net.out(i) {
            deg[c] -= 1;
            if deg[c] == 0 {
                stack.push(c);
            }
        }
    }
    if order.len() != n {
        cx.fail(tag("graph|cycle"), format!("topological order covers {} of {n} nodes", order.len()));
        return;
    }
    if roots != vec![0] {
        cx.fail(tag("graph|unreachable-from-start"), format!("nodes without predecessor: {roots:?}"));
    }
    // (every non-last node has idx_next, and the graph is acyclic: every walk ends at a node
    // without successors; that node must be the last one — checked in (1))
    // nodes on the primary chain from the start (the shortest path the dispatcher starts from)
    let mut on_primary = vec![false; n];
    {
        let mut i = 0usize;
        loop {
            on_primary[i] = true;
            let nx = v[i].idx_next as usize;
            if nx == 0 || on_primary[nx] {
                break;
            }
            i = nx;
        }
    }
    let start_shifted = v[0].time_sched.value < depart - 1e-6;
    // shortest remaining walk to the end from every node (own relaxation, reverse topological
    // order).  The backward pass is designed to leave t(n) = t(last) - remaining(n): on an
    // alternate branch that is earlier than the split node by the branch's slack, which is the
    // one listed way a scheduled time goes below zero.
    let mut remaining = vec![f64::INFINITY; n];
    remaining[last] = 0.0;
    for i in order.iter().rev() {
        for (c, _) in net.out(*i) {
            let d = w(v, *i, c) + remaining[c];
            if d < remaining[*i] {
                remaining[*i] = d;
            }
        }
    }
    let t_end = v[last].time_sched.value;
    let latest = |i: usize| (v[i].time_sched.value - (t_end - remaining[i])).abs() <= 1e-6 + 1e-9 * t_end.abs();
    // ---- (4) times
    for (i, e) in v.iter().enumerate() {
        let (t, d, x) = (e.time_sched.value, e.time_to_next.value, e.dist_to_next.value);
        if !t.is_finite() || !d.is_finite() || !x.is_finite() {
            cx.fail(tag("time|non-finite"), format!("node {i}: time_sched {t}, time_to_next {d}, dist_to_next {x}"));
        }
        if d < -1e-9 {
            cx.fail(tag("time|negative-duration"), format!("node {i}: time_to_next {d}"));
        }
        if t < -1e-9 {
            let alt = if i <= 1 {
                ":start-node"
            } else if !on_primary[i] && latest(i) {
                ":alternate-branch"
            } else if start_shifted {
                ":start-node-shifted"
            } else {
                ""
            };
            cx.fail(tag(&format!("time|negative-scheduled-time{alt}")), format!("node {i} ({:?} link {}): time_sched {t} (departure {depart})", e.link_event.est_type, e.link_event.link_idx.idx()));
        }
    }
    for i in 1..n {
        for (p, via_prev) in net.inc(i) {
            let bound = v[p].time_sched.value + w(v, p, i);
            let t = v[i].time_sched.value;
            let tol = 1e-6 + 1e-9 * t.abs();
            if t > bound + tol {
                let cls = if p <= 1 && start_shifted {
                    ":start-node-shifted"
                } else if v[p].idx_next as usize != i {
                    ":alternate-edge"
                } else {
                    ""
                };
                cx.fail(tag(&format!("time|node-later-than-a-predecessor-allows{cls}")), format!("node {i}: time {t} > predecessor {p} time {} + {} = {bound}", v[p].time_sched.value, w(v, p, i)));
            }
            if via_prev && v[p].idx_next as usize == i && (t - bound).abs() > tol {
                cx.fail(tag("time|node!=primary-predecessor+duration"), format!("node {i}: time {t} vs primary predecessor {p}: {} + {} = {bound}", v[p].time_sched.value, v[p].time_to_next.value));
            }
        }
    }
    // ---- (5) trip time == shortest sum of durations over all walks
    let mut dist = vec![f64::INFINITY; n];
    dist[0] = 0.0;
    for i in &order {
        if dist[*i].is_finite() {
            for (c, _) in net.out(*i) {
                let d = dist[*i] + w(v, *i, c);
                if d < dist[c] {
                    dist[c] = d;
                }
            }
        }
    }
    let trip = v[last].time_sched.value - v[0].time_sched.value;
    // node 1 carries the departure time as its duration; take it out of the path length
    let shortest = dist[last] - v[1].time_to_next.value;
    if dist[last].is_finite() && (trip - shortest).abs() > 1e-6 + 1e-9 * trip.abs() {
        let cls = if start_shifted { ":start-node-shifted" } else { "" };
        cx.fail(tag(&format!("time|trip-time!=shortest-walk{cls}")), format!("last - first = {trip} but the shortest walk sums to {shortest} (difference {})", trip - shortest));
    }
    if start_shifted {
        cx.fail(tag("time|first-node-before-departure"), format!("first node {} < departure {depart}", v[0].time_sched.value));
    }
    // ---- (3) walks: contiguous origin->destination route, FIFO clears
    let mut walks = 0usize;
    let mut truncated = false;
    let mut stack: Vec<(usize, Vec<usize>)> = vec![(0, vec![0])];
    let mut splits = 0;
    let mut joins = 0;
    for i in 0..n {
        if net.out(i).len() > 1 {
            splits += 1;
        }
        if net.inc(i).len() > 1 {
            joins += 1;
        }
    }
    while let Some((i, path)) = stack.pop() {
        if i == last {
            walks += 1;
            check_walk(v, &path, links, origins, dests, train_len, cx);
            if walks >= MAX_WALKS {
                truncated = !stack.is_empty();
                break;
            }
            continue;
        }
        for (c, _) in net.out(i) {
            let mut p = path.clone();
            p.push(c);
            stack.push((c, p));
        }
    }
    cx.count("walks_checked", walks as u64);
    cx.label_if(truncated, "walk_enumeration_truncated");
    cx.label_if(splits >= 1 && joins >= 1, "net_with_split_and_join");
    if splits >= 1 && joins >= 1 {
        cx.nontrivial();
    }
}

fn check_walk(v: &[EstTime], path: &[usize], links: &[Link], origins: &[u32], dests: &[u32], train_len: f64, cx: &mut Ctx) {
    let tag = |s: &str| format!("C15|{s}");
    let mut arrives: Vec<u32> = vec![];
    let mut clears: Vec<u32> = vec![];
    for i in path {
        let e = &v[*i];
        match e.link_event.est_type {
            EstType::Arrive => arrives.push(e.link_event.link_idx.idx() as u32),
            EstType::Clear => {
                let l = e.link_event.link_idx.idx() as u32;
                if !arrives.contains(&l) {
                    cx.fail(tag("route|segment-cleared-before-entered"), format!("walk {path:?}: Clear({l}) before Arrive({l})"));
                }
                clears.push(l);
            }
            EstType::Fake => {
                if e.link_event.link_idx.idx() != 0 {
                    cx.fail(tag("route|fake-node-with-link"), format!("node {i}"));
                }
            }
        }
    }
    if arrives.is_empty() {
        cx.fail(tag("route|walk-without-arrive-events"), format!("walk {path:?}"));
        return;
    }
    if !origins.contains(&arrives[0]) {
        cx.fail(tag("route|does-not-start-at-an-origin"), format!("first segment {} not in {origins:?}", arrives[0]));
    }
    if !dests.contains(arrives.last().unwrap()) {
        let short = if arrives.len() == 1 { ":only-origin-events" } else { "" };
        cx.fail(tag(&format!("route|does-not-end-at-a-destination{short}")), format!("walk visits {arrives:?}, destinations {dests:?}"));
    }
    for wdw in arrives.windows(2) {
        let l = &links[wdw[1] as usize];
        if l.idx_prev.idx() as u32 != wdw[0] && l.idx_prev_alt.idx() as u32 != wdw[0] {
            cx.fail(tag("route|not-contiguous"), format!("segment {} does not follow {} in the network (walk {arrives:?})", wdw[1], wdw[0]));
        }
    }
    // route-faithfulness in metres: the distance covered along the walk (a node's dist_to_next
    // on its primary edge, nothing on an alternate edge — as for the times) cannot exceed the
    // length of the segments the walk enters
    let mut covered = 0.0f64;
    for k in 0..path.len().saturating_sub(1) {
        let (p, n) = (path[k], path[k + 1]);
        if v[p].idx_next as usize == n {
            covered += v[p].dist_to_next.value;
        }
    }
    let route_len: f64 = arrives.iter().map(|l| links[*l as usize].length.value).sum();
    if covered.is_finite() && covered > route_len + 1.0 {
        cx.fail(tag("route|walk-covers-more-distance-than-the-segments-it-enters"), format!("walk over {arrives:?}: sum of dist_to_next {covered} m, segments {route_len} m"));
    }
    // clears are a prefix of arrives (FIFO); complete when the destination is longer than the train
    if clears.len() > arrives.len() || clears.iter().zip(arrives.iter()).any(|(c, a)| c != a) {
        cx.fail(tag("route|clear-order-differs-from-arrive-order"), format!("arrives {arrives:?} clears {clears:?}"));
    }
    let dest_len = links[*arrives.last().unwrap() as usize].length.value;
    if dest_len >= train_len && dests.contains(arrives.last().unwrap()) && clears.len() + 1 < arrives.len() {
        cx.fail(tag("route|segments-never-cleared"), format!("arrives {arrives:?} clears {clears:?} (destination {dest_len} m, train {train_len} m)"));
    }
}

pub struct C15;
impl C15 {
    fn gen(g: &mut Gen, _tier: Tier) -> DispatchCase {
        let mut c = Self::gen_plain(g, _tier);
        // exact coincidences (4 %): the train is exactly as long as one stage of its route, so
        // that its tail clears that stage in the very step in which its front arrives on the
        // next one, and the next stage is a few metres short of the 5-mile look-ahead, so that
        // this happens in the last step before the known path is extended
        let n = c.net.stages.len();
        if n >= 3 && g.bool(0.04) {
            let t = &mut c.trains[0];
            if t.from.is_none() && t.to.is_none() && !t.branch {
                let k = g.usize(1, n - 2);
                let nx = if t.east { k + 1 } else { k - 1 };
                let o = if t.east { 0 } else { n - 1 };
                let o_len = c.net.stages[o].main.length.min(c.net.stages[o].side.as_ref().map(|x| x.length).unwrap_or(f64::INFINITY));
                if o_len >= 2500.0 && nx != o {
                    let l = c.net.stages[k].main.length.min(((o_len - 200.0) / 100.0).floor() * 100.0).max(600.0);
                    c.net.stages[k].main.length = l;
                    if let Some(sd) = c.net.stages[k].side.as_mut() {
                        sd.length = l;
                    }
                    t.train.length_override = Some(l);
                    let l5 = 8040.0 + g.int(0, 6) as f64;
                    c.net.stages[nx].main.length = l5;
                    if let Some(sd) = c.net.stages[nx].side.as_mut() {
                        sd.length = l5;
                    }
                    for st in [k, nx] {
                        let st = &mut c.net.stages[st];
                        st.main.bump = None;
                        if let Some(sd) = st.side.as_mut() {
                            sd.bump = None;
                        }
                        let max_rise = 0.008 * st.main.length;
                        st.rise = (st.rise.clamp(-max_rise, max_rise) * 10.0).round() / 10.0;
                    }
                }
            }
        }
        c
    }
    fn gen_plain(g: &mut Gen, _tier: Tier) -> DispatchCase {
        gen_dispatch_case(g, 1, &CorridorOpts { max_stages: 9, p_branch: 0.4, p_bypass: 0.3, p_short_east: 0.08, p_short_ends: std::env::var("VERIF_SHORT_ENDS").ok().and_then(|s| s.parse().ok()).unwrap_or(0.12), ..Default::default() })
    }
    fn check(case: &DispatchCase, cx: &mut Ctx) {
        scenario_labels(case, cx);
        cx.label_if(case.trains[0].train.length_override.map(|l| case.net.stages.iter().any(|s| s.main.length == l)).unwrap_or(false), "train_exactly_as_long_as_a_stage_of_its_route");
        let b = match build(case) {
            Ok(b) => b,
            Err(e) => {
                cx.discard(&format!("build_err:{}", msg_class(&format!("{e:#}"), 50)));
                return;
            }
        };
        let t = &case.trains[0];
        match est_times_for(&b, 0) {
            Err(p) => {
                if p.file.contains("meet_pass/est_times") {
                    cx.fail(format!("C15|panic|{}", p.class()), format!("make_est_times unwound: {} at {}:{}", p.msg, p.file, p.line));
                } else {
                    // an unwind out of the train stepping inside is C03's business
                    cx.discard(&format!("panic_in_train_sim:{}", p.class()));
                }
            }
            Ok(Err(e)) => {
                cx.label(&format!("rejected:{}", msg_class(e.lines().last().unwrap_or(""), 50)));
                cx.discard("est_times_rejected");
            }
            Ok(Ok((net, _con))) => {
                cx.count("nodes", net.val.len() as u64);
                check_est_net(&net.val, &b.corridor.links, &b.ods[0].0, &b.ods[0].1, t.train.init_time, t.train.length(), cx);
            }
        }
    }
}

impl Property for C15 {
    fn id(&self) -> &'static str {
        "C15"
    }
    fn cases(&self, tier: Tier) -> usize {
        match tier {
            Tier::Quick => 9000,
            Tier::Thorough => 54000,
        }
    }
    fn tape_len(&self, _t: Tier) -> usize {
        4096
    }
    crate::typed_property!(C15, DispatchCase);
    fn rule(&self) -> String {
        "bidirectional corridor of 1-9 alternating single / two-track stages (0-4 interior sidings, two-track terminal yards in ~70 %, segments 1.5-20 km, grades <= 0.8 %) x one generated train (either direction, departure 0-3600 s); on Ok: index ranges, reciprocity of every forward and backward link, no fake node with both alternates, acyclic, single root, every node's time finite and >= 0, durations >= 0, t(n) <= t(p) + w(p->n) for every edge with equality on the primary-predecessor edge, last - first == shortest walk (own DAG relaxation), and for every start-to-end walk (exhaustive up to 4096): arrive events form a contiguous network route from an origin to a destination, clears in arrive order and complete. Non-trivial: net with >= 1 split and >= 1 join".into()
    }
    fn assumptions(&self) -> Vec<String> {
        vec![
            "edge weight = parent's time_to_next on its primary (idx_next) edge, 0 on an alternate edge; tolerance 1e-6 s + 1e-9 relative".into(),
            "get_running_time_hours exists only behind the pyo3 feature; its formula (last - first scheduled time) is what is compared".into(),
            "an unwind whose site is outside meet_pass/est_times (train stepping) is left to C03".into(),
        ]
    }
    fn panic_is_violation(&self) -> bool {
        true
    }
    fn case_timeout_s(&self) -> u64 {
        300
    }
}
