//! C19 — histories and step counters stay aligned through the whole object tree.
//! The object tree is walked generically through the types' own Serialize impls, so every
//! nested `history`, `state.i` and `save_interval` is found without naming it.

use crate::engine::*;
use crate::gen::net_chain::*;
use crate::gen::powertrain::*;
use crate::props::slts::gen_slts_case;
use crate::props::train_run::*;
use altrios_core::consist::consist_sim::ConsistSimulation;
use altrios_core::consist::locomotive::loco_sim::{LocomotiveSimulation, PowerTrace};
use altrios_core::consist::locomotive::{DummyLoco, Locomotive, PowertrainType};
use altrios_core::consist::{Consist, PowerDistributionControlType, Proportional, RESGreedy};
use altrios_core::track::{Link, LinkIdx, Location};
use altrios_core::train::SpeedTrace;
use serde::{Deserialize, Serialize};
use serde_json::Value;
use std::collections::HashMap;

#[derive(Serialize, Deserialize, Clone, Debug)]
pub enum U19 {
    Spec(UnitSpec),
    HybridDefault,
    Dummy,
}

#[derive(Serialize, Deserialize, Clone, Debug)]
pub struct C19Case {
    /// 0 locomotive sim, 1 consist sim, 2 set-speed train sim, 3 speed-limited train sim
    pub kind: u8,
    pub units: Vec<U19>,
    pub pdct: u8,
    /// (time, fraction of rated power) for kinds 0/1
    pub trace: Vec<(f64, f64)>,
    pub train: Option<TrainCase>,
    pub interval: Option<usize>,
    /// interval given at construction (false) or construction with `initial` and then changed
    /// through the top-level set_save_interval (true)
    pub via_setter: bool,
    pub initial: Option<usize>,
    /// train sims only: after the interval is in force, the consist is replaced through the
    /// public field by an equal one that saves every step (what `Consist::default()` and most
    /// files carry), without propagating the interval again: the train's own gate must keep
    /// the nested histories aligned (and empty when saving is disabled)
    #[serde(default)]
    pub swap_consist: bool,
    /// kinds 0-2: this many `step()` calls are made by hand before `walk()` takes over
    #[serde(default)]
    pub pre_steps: usize,
    /// kinds 0-2: a `walk()` that returned Ok is called once more (nothing is left to do: it
    /// only makes its entry save)
    #[serde(default)]
    pub walk_again: bool,
    /// kind 1: the consist first runs this many steps inside another `ConsistSimulation` (same
    /// interval) and is then carried over, as it is, into the simulation under test (a new
    /// trace for the same consist); only the consist's own tree is held to the statement then
    #[serde(default)]
    pub carry_over: usize,
}

fn build_u19(u: &U19, si: Option<usize>) -> anyhow::Result<Locomotive> {
    match u {
        U19::Spec(s) => build_unit(s, si),
        U19::HybridDefault => {
            let mut l = Locomotive::default_hybrid_electric_loco();
            l.set_save_interval(si);
            Ok(l)
        }
        U19::Dummy => {
            let mut l = Locomotive::default();
            l.loco_type = PowertrainType::DummyLoco(DummyLoco::default());
            let mut v = serde_json::to_value(&l)?;
            v["mass"] = Value::Null;
            let mut l: Locomotive = serde_json::from_value(v)?;
            l.set_save_interval(si);
            Ok(l)
        }
    }
}

fn rated(u: &U19) -> f64 {
    match u {
        U19::Spec(UnitSpec::Conv { fc, gen, edrv, .. }) => fc.pwr_max.min(gen.pwr_max).min(edrv.pwr_max),
        U19::Spec(UnitSpec::Bel { res, edrv, .. }) => res.pwr_max.min(edrv.pwr_max),
        U19::HybridDefault => 3.0e6,
        U19::Dummy => 3.0e6,
    }
}

#[derive(Default, Debug)]
struct Tree {
    /// (path, i column of the history)
    histories: Vec<(String, Vec<u64>)>,
    /// (path, state.i) — missing state == default (i = 1)
    counters: Vec<(String, u64)>,
    intervals: Vec<(String, Option<u64>)>,
    /// other columns lengths that differ from the i column inside one history
    ragged: Vec<String>,
}

fn walk(v: &Value, path: &str, t: &mut Tree) {
    match v {
        Value::Object(o) => {
            if o.contains_key("history") || o.contains_key("save_interval") {
                // an object that can save: its counter is state.i (state may be skipped when default)
                let i = o.get("state").and_then(|s| s.get("i")).and_then(|i| i.as_u64());
                if o.contains_key("history") && o.get("history").map(|h| h.get("i").is_some()).unwrap_or(false) {
                    t.counters.push((path.to_string(), i.unwrap_or(1)));
                }
            }
            for (k, x) in o {
                let p = format!("{path}.{k}");
                if k == "history" {
                    if let Some(h) = x.as_object() {
                        if let Some(col) = h.get("i").and_then(|c| c.as_array()) {
                            let icol: Vec<u64> = col.iter().map(|e| e.as_u64().unwrap_or(u64::MAX)).collect();
                            for (ck, cv) in h {
                                if let Some(a) = cv.as_array() {
                                    if a.len() != icol.len() {
                                        t.ragged.push(format!("{p}.{ck}: {} vs i column {}", a.len(), icol.len()));
                                    }
                                }
                            }
                            t.histories.push((p.clone(), icol));
                            continue;
                        }
                    }
                }
                if k == "save_interval" {
                    t.intervals.push((p.clone(), x.as_u64()));
                    continue;
                }
                walk(x, &p, t);
            }
        }
        Value::Array(a) => {
            for (i, x) in a.iter().enumerate() {
                walk(x, &format!("{path}[{i}]"), t);
            }
        }
        _ => {}
    }
}

fn expected_len(interval: Option<usize>, executed: u64) -> u64 {
    match interval {
        None => 0,
        Some(n) => {
            let n = n as u64;
            (if n == 1 { 1 } else { 0 }) + (1..=executed).filter(|k| k % n == 0).count() as u64
        }
    }
}

pub struct C19;
impl C19 {
    fn gen(g: &mut Gen, tier: Tier) -> C19Case {
        let kind = g.weighted(&[3, 4, 3, 2]) as u8;
        let interval = [Some(1usize), None, Some(2), Some(3), Some(7)][g.weighted(&[3, 2, 3, 2, 2])];
        let via_setter = g.bool(0.4);
        let initial = [None, Some(1usize), Some(5)][g.idx(3)];
        let mut units = vec![];
        let mut train = None;
        let mut trace = vec![];
        match kind {
            0 => {
                units.push(match g.weighted(&[4, 4, 1, 1]) {
                    0 => U19::Spec(gen_unit(g, Some(false))),
                    1 => U19::Spec(gen_unit(g, Some(true))),
                    2 => U19::HybridDefault,
                    _ => U19::Dummy,
                });
            }
            1 => {
                let n = g.usize(1, 6);
                for _ in 0..n {
                    units.push(match g.weighted(&[5, 4, 1]) {
                        0 => U19::Spec(gen_unit(g, Some(false))),
                        1 => U19::Spec(gen_unit(g, Some(true))),
                        _ => U19::HybridDefault,
                    });
                }
            }
            2 => {
                let mut c = gen_set_speed_case(g, tier, true);
                c.save_interval = interval;
                if !c.train.dummy && g.bool(0.25) {
                    c.train.hybrids = 1;
                }
                train = Some(c);
            }
            _ => {
                let mut c = gen_slts_case(g, tier, false);
                c.save_interval = interval;
                if g.bool(0.25) {
                    c.train.hybrids = 1;
                }
                train = Some(c);
            }
        }
        if kind <= 1 {
            // mostly admissible demand, sometimes an over-limit step that ends the run
            let n = g.usize(2, 60);
            let mut t = 0.0;
            trace.push((0.0, 0.0));
            for _ in 1..n {
                t += Gen::round(g.f64(0.5, 3.0), 1);
                let f = if g.bool(0.03) { 1.5 } else { Gen::round(g.f64(-0.2, 0.5), 3) };
                trace.push((Gen::round(t, 1), f));
            }
            // flat maps keep most runs alive to their end
            if g.bool(0.7) {
                for u in units.iter_mut() {
                    if let U19::Spec(s) = u {
                        s.flatten_maps();
                        s.harmonise_ratings();
                    }
                }
            }
        }
        let pdct = g.int(0, 1) as u8;
        let swap_consist = kind >= 2 && g.bool(0.15);
        let pre_steps = if kind <= 2 && g.bool(0.25) { g.usize(1, 12) } else { 0 };
        let walk_again = kind <= 2 && g.bool(0.1);
        let carry_over = if kind == 1 && g.bool(0.15) { g.usize(1, 9) } else { 0 };
        C19Case { kind, units, pdct, trace, train, interval, via_setter, initial, swap_consist, pre_steps, walk_again, carry_over }
    }

    fn check(case: &C19Case, cx: &mut Ctx) {
        let construct_iv = if case.via_setter { case.initial } else { case.interval };
        cx.label(["loco_sim", "consist_sim", "set_speed", "speed_limited"][case.kind as usize]);
        cx.label_if(case.kind == 3 && case.pdct == 1 && case.train.as_ref().map(|t| t.links.len() >= 2).unwrap_or(false), "timed_path_walk");
        cx.label(&format!("interval_{:?}", case.interval));
        cx.label_if(case.via_setter, "interval_changed_through_top_level_setter");
        let total_rating: f64 = case.units.iter().map(rated).sum();
        let power_trace = || {
            PowerTrace::new(
                case.trace.iter().map(|p| p.0).collect(),
                case.trace.iter().map(|p| p.1 * if case.kind == 0 { rated(&case.units[0]) } else { total_rating * 0.8 }).collect(),
                case.trace.iter().map(|_| Some(true)).collect(),
            )
        };
        // `pre_steps` calls of step() by hand (stopping at the first Err or at the end of the
        // trace), then walk(); a walk that returned Ok may be called once more.  `saves` receives
        // the step index at every moment the object is asked to save: after each executed step,
        // and at every entry of walk()
        let saves: std::cell::RefCell<Vec<u64>> = Default::default();
        macro_rules! hand_then_walk {
            ($sim:expr, $i:expr, $len:expr) => {{
                let mut r: anyhow::Result<()> = Ok(());
                let mut by_hand = 0;
                while by_hand < case.pre_steps && $i < $len {
                    let i0 = $i as u64;
                    r = $sim.step();
                    if r.is_err() {
                        break;
                    }
                    saves.borrow_mut().push(i0);
                    by_hand += 1;
                }
                if r.is_ok() {
                    let i0 = $i as u64;
                    saves.borrow_mut().push(i0);
                    r = $sim.walk();
                    let i1 = $i as u64;
                    saves.borrow_mut().extend(i0..i1);
                    if r.is_ok() && case.walk_again {
                        saves.borrow_mut().push(i1);
                        r = $sim.walk();
                    }
                }
                r
            }};
        }
        // a consist carried over from an earlier simulation: counters of the simulation and of
        // the consist legitimately differ; inside the consist's tree every history must list
        // the same steps and every counter must agree
        if case.kind == 1 && case.carry_over > 0 {
            let out = catch(|| -> anyhow::Result<(Value, bool)> {
                let locos = case.units.iter().map(|u| build_u19(u, case.interval)).collect::<anyhow::Result<Vec<_>>>()?;
                let p = if case.pdct == 0 { PowerDistributionControlType::RESGreedy(RESGreedy) } else { PowerDistributionControlType::Proportional(Proportional) };
                let con = Consist::new(locos, case.interval, p);
                let mut first = ConsistSimulation::new(con, power_trace(), case.interval);
                for _ in 0..case.carry_over {
                    if first.i >= first.power_trace.len() {
                        break;
                    }
                    first.step()?;
                }
                let mut sim = ConsistSimulation::new(first.loco_con.clone(), power_trace(), case.interval);
                let r = sim.walk();
                Ok((serde_json::to_value(&sim.loco_con)?, r.is_ok()))
            });
            let (v, ok) = match out {
                Err(p) => {
                    cx.discard(&format!("panic_in_code:{}", p.class()));
                    return;
                }
                Ok(Err(e)) => {
                    cx.discard(&format!("build_err:{}", msg_class(&format!("{e:#}"), 40)));
                    return;
                }
                Ok(Ok(x)) => x,
            };
            cx.label("consist_carried_over_from_an_earlier_simulation");
            cx.label(if ok { "run_ok" } else { "run_ended_with_err" });
            let mut t = Tree::default();
            walk(&v, "loco_con", &mut t);
            for r in &t.ragged {
                cx.fail("C19|ragged|history-columns-differ-in-length", r.clone());
            }
            if let Some((p0, col0)) = t.histories.first() {
                for (p, col) in t.histories.iter().skip(1) {
                    if col != col0 {
                        cx.fail("C19|carry|histories-of-a-carried-over-consist-list-different-steps", format!("{p0}: {:?} ... ({} entries); {p}: {:?} ... ({} entries); interval {:?}, {} steps before the hand-over", &col0[..col0.len().min(8)], col0.len(), &col[..col.len().min(8)], col.len(), case.interval, case.carry_over));
                        break;
                    }
                }
                if let Some(n) = case.interval {
                    if let Some(bad) = col0.iter().find(|k| **k % n as u64 != 0) {
                        cx.fail("C19|carry|saved-step-is-not-a-multiple-of-the-interval", format!("{p0}: step {bad}, interval {n}"));
                    }
                }
                if col0.len() >= 3 {
                    cx.nontrivial();
                }
            }
            if let Some((p0, i0)) = t.counters.first() {
                for (p, i) in t.counters.iter().skip(1) {
                    if i != i0 {
                        cx.fail("C19|carry|counters-of-a-carried-over-consist-differ", format!("{p0}: {i0}; {p}: {i}"));
                        break;
                    }
                }
            }
            return;
        }
        // run and serialise
        let out = catch(|| -> anyhow::Result<(Value, u64, bool)> {
            match case.kind {
                0 => {
                    let loco = build_u19(&case.units[0], construct_iv)?;
                    let mut sim = LocomotiveSimulation::new(loco, power_trace(), construct_iv);
                    if case.via_setter {
                        sim.set_save_interval(case.interval);
                    }
                    let r = hand_then_walk!(sim, sim.i, sim.power_trace.len());
                    Ok((serde_json::to_value(&sim)?, sim.i as u64, r.is_ok()))
                }
                1 => {
                    let locos = case.units.iter().map(|u| build_u19(u, construct_iv)).collect::<anyhow::Result<Vec<_>>>()?;
                    let p = if case.pdct == 0 { PowerDistributionControlType::RESGreedy(RESGreedy) } else { PowerDistributionControlType::Proportional(Proportional) };
                    let con = Consist::new(locos, construct_iv, p);
                    let mut sim = ConsistSimulation::new(con, power_trace(), construct_iv);
                    if case.via_setter {
                        sim.set_save_interval(case.interval);
                    }
                    let r = hand_then_walk!(sim, sim.i, sim.power_trace.len());
                    Ok((serde_json::to_value(&sim)?, sim.i as u64, r.is_ok()))
                }
                2 => {
                    let tc = case.train.as_ref().unwrap();
                    let net: Vec<Link> = build_chain(&tc.links);
                    let path: Vec<LinkIdx> = link_idxs(0..tc.links.len());
                    let tsb = tc.train.build_builder_init(construct_iv, None, tc.trace.first().map(|p| p.1.max(0.0)))?;
                    let trace = SpeedTrace::new(tc.trace.iter().map(|x| x.0).collect(), tc.trace.iter().map(|x| x.1).collect(), None);
                    let mut sim = tsb.make_set_speed_train_sim(&net, &path, trace, construct_iv)?;
                    if case.via_setter {
                        sim.set_save_interval(case.interval);
                    }
                    if case.swap_consist {
                        sim.loco_con = tc.train.build_consist(Some(1))?;
                    }
                    let r = hand_then_walk!(sim, sim.state.i, sim.speed_trace.len());
                    Ok((serde_json::to_value(&sim)?, sim.state.i as u64, r.is_ok()))
                }
                _ => {
                    let tc = case.train.as_ref().unwrap();
                    let net: Vec<Link> = build_chain(&tc.links);
                    let n = tc.links.len();
                    let path: Vec<LinkIdx> = link_idxs(0..n);
                    let tsb = tc.train.build_builder(construct_iv, Some(("A", "B")))?;
                    let mut lm: HashMap<String, Vec<Location>> = HashMap::new();
                    lm.insert("A".into(), vec![location("A", 1)]);
                    lm.insert("B".into(), vec![location("B", n as u32)]);
                    let mut sim = tsb.make_speed_limit_train_sim(&lm, construct_iv, None, None)?;
                    if let Some((t, c)) = tc.brake_ramp_up {
                        sim.fric_brake.ramp_up_time = altrios_core::uc::S * t;
                        sim.fric_brake.ramp_up_coeff = altrios_core::uc::R * c;
                    }
                    if case.via_setter {
                        sim.set_save_interval(case.interval);
                    }
                    if case.swap_consist {
                        sim.loco_con = tc.train.build_consist(Some(1))?;
                    }
                    if case.pdct == 1 && n >= 2 {
                        // timed-path walk: link k becomes available at a generated time
                        let mut t = tc.train.init_time;
                        let mut tp = vec![];
                        for (k, l) in tc.links.iter().enumerate() {
                            tp.push(altrios_core::train::LinkIdxTime::new(LinkIdx::new(k as u32 + 1), altrios_core::uc::S * t));
                            t += (l.length / 8.0).round() + (case.trace.len() % 7) as f64 * 13.0;
                        }
                        let r = sim.walk_timed_path(&net, &tp);
                        if sim.state.i == 1 && sim.history.is_empty() && r.is_err() {
                            anyhow::bail!("path rejected before the walk started");
                        }
                        return Ok((serde_json::to_value(&sim)?, sim.state.i as u64, r.is_ok()));
                    }
                    let mut started = false;
                    let r = slts_schedule(&mut sim, tc, &net, &path, false, &mut started);
                    if !started {
                        anyhow::bail!("path rejected before the walk started");
                    }
                    Ok((serde_json::to_value(&sim)?, sim.state.i as u64, r.is_ok()))
                }
            }
        });
        let (v, top_i, ok) = match out {
            Err(p) => {
                // an unwind out of the simulated code is other properties' business
                cx.discard(&format!("panic_in_code:{}", p.class()));
                return;
            }
            Ok(Err(e)) => {
                cx.discard(&format!("build_err:{}", msg_class(&format!("{e:#}"), 40)));
                return;
            }
            Ok(Ok(x)) => x,
        };
        cx.label(if ok { "run_ok" } else { "run_ended_with_err" });
        let executed = top_i - 1;
        cx.count("executed_steps", executed);
        let mut t = Tree::default();
        walk(&v, "sim", &mut t);
        cx.count("histories_found", t.histories.len() as u64);
        // strip indices so that the signature names the kind of object, not its position
        let kind_of = |p: &str| -> String {
            let mut s = String::new();
            let mut skip = false;
            for ch in p.chars() {
                if ch == '[' {
                    skip = true;
                } else if ch == ']' {
                    skip = false;
                } else if !skip {
                    s.push(ch);
                }
            }
            s
        };
        for r in &t.ragged {
            cx.fail("C19|ragged|history-columns-differ-in-length", r.clone());
        }
        // every nested save_interval equals the one in force
        cx.label_if(case.swap_consist, "consist_replaced_without_propagating_the_interval");
        for (p, iv) in &t.intervals {
            // a consist swapped in afterwards keeps its own setting: only the histories are
            // held to the statement there
            if case.swap_consist && p.contains("loco_con") {
                continue;
            }
            if *iv != case.interval.map(|x| x as u64) {
                cx.fail(format!("C19|interval|not-propagated:{}", kind_of(p)), format!("{p} = {iv:?} but the interval in force is {:?} (construction {:?}, setter {})", case.interval, construct_iv, case.via_setter));
            }
        }
        cx.label_if(case.kind <= 2 && case.pre_steps > 0, "steps_by_hand_before_walk");
        cx.label_if(case.kind <= 2 && case.walk_again && ok, "walk_called_again");
        // entry k refers to step k: the step column itself is known.  Kinds 0-2: the moments at
        // which the object was asked to save (after every executed step; on entry of walk(), which
        // is the "initial state" of the statement when nothing has been executed yet), of which
        // those with an index that is a multiple of the interval are kept
        let want_col: Vec<u64> = match case.interval {
            None => vec![],
            Some(n) => {
                let n = n as u64;
                if case.kind <= 2 {
                    saves.borrow().iter().copied().filter(|k| k % n == 0).collect()
                } else {
                    let mut c: Vec<u64> = if n == 1 { vec![1] } else { vec![] };
                    c.extend((1..=executed).filter(|k| k % n == 0));
                    c
                }
            }
        };
        let want = if case.kind <= 2 { want_col.len() as u64 } else { expected_len(case.interval, executed) };
        if case.kind <= 2 && case.pre_steps == 0 && !(case.walk_again && ok) {
            // plain walk: the closed form of the statement
            if want != expected_len(case.interval, executed) {
                cx.fail("C19|harness|save-model-differs-from-closed-form", format!("{want} vs {}", expected_len(case.interval, executed)));
            }
        }
        if let Some((p, col)) = t.histories.first() {
            if col.len() == want_col.len() && *col != want_col {
                let i = col.iter().zip(want_col.iter()).position(|(a, b)| a != b).unwrap_or(0);
                cx.fail(format!("C19|steps|entry-does-not-refer-to-its-step:{}", kind_of(p)), format!("{p}: entry {i} carries step {} but should carry step {} (interval {:?})", col[i], want_col[i], case.interval));
            }
        }
        let reference = t.histories.first().map(|h| h.1.clone());
        for (p, col) in &t.histories {
            // a DummyLoco has no components; everything else must follow
            if col.len() as u64 != want {
                cx.fail(format!("C19|len|{}", kind_of(p)), format!("{p}: {} entries, expected {want} (interval {:?}, {executed} executed steps)", col.len(), case.interval));
            }
            if let Some(r) = &reference {
                if r != col {
                    cx.fail(format!("C19|align|{}", kind_of(p)), format!("{p}: step column {:?}… differs from {}: {:?}…", &col[..col.len().min(8)], t.histories[0].0, &r[..r.len().min(8)]));
                }
            }
        }
        for (p, i) in &t.counters {
            if *i != top_i {
                cx.fail(format!("C19|counter|{}", kind_of(p)), format!("{p}: state.i = {i} but the top-level counter is {top_i}"));
            }
        }
        let kinds: std::collections::BTreeSet<u8> = case
            .units
            .iter()
            .map(|u| match u {
                U19::Spec(UnitSpec::Conv { .. }) => 0,
                U19::Spec(UnitSpec::Bel { .. }) => 1,
                U19::HybridDefault => 2,
                U19::Dummy => 3,
            })
            .collect();
        let kinds_n = if let Some(tc) = &case.train {
            let b = tc.train.units.iter().filter(|u| u.is_bel()).count();
            (b > 0) as usize + (b < tc.train.units.len()) as usize
        } else {
            kinds.len()
        };
        cx.label_if(kinds_n >= 2, "two_unit_kinds");
        if let Some(n) = case.interval {
            if n >= 2 && executed >= 2 * n as u64 && kinds_n >= 2 {
                cx.nontrivial();
            }
        }
    }
}

impl Property for C19 {
    fn id(&self) -> &'static str {
        "C19"
    }
    fn cases(&self, tier: Tier) -> usize {
        match tier {
            Tier::Quick => 15000,
            Tier::Thorough => 90000,
        }
    }
    fn tape_len(&self, _t: Tier) -> usize {
        8192
    }
    crate::typed_property!(C19, C19Case);
    fn rule(&self) -> String {
        "simulation kind in {locomotive sim, consist sim, set-speed, speed-limited (walk / link-by-link / walk_timed_path over generated link times)} x interval in {None,1,2,3,7} given at construction or changed through the top-level set_save_interval x generated compositions (conventional, battery, default hybrid, dummy) x run lengths incl. runs that end with Err; the serialised object tree is walked generically: every `history` has the same length == [n==1] + #{executed k: k mod n == 0} (0 when disabled), identical step columns == the expected step numbers, no ragged columns, every nested state.i == top-level counter, every nested save_interval == the interval in force. Non-trivial: interval >= 2, >= 2n executed steps and >= 2 unit kinds".into()
    }
    fn assumptions(&self) -> Vec<String> {
        vec![
            "objects are observed through their own Serialize impls (serde_json::to_value); a skipped default `state` counts as i = 1".into(),
            "executed steps = final top-level counter - 1".into(),
        ]
    }
}
