pub mod powertrain;
pub mod speed_profile;

use crate::engine::Property;

pub fn registry() -> Vec<&'static dyn Property> {
    vec![
        &powertrain::C01,
        &speed_profile::C02,
        &powertrain::C08,
        &powertrain::C09,
        &powertrain::C10,
        &speed_profile::C13,
    ]
}
