pub mod speed_profile;

use crate::engine::Property;

pub fn registry() -> Vec<&'static dyn Property> {
    vec![&speed_profile::C02, &speed_profile::C13]
}
