pub mod c15;
pub mod c16;
pub mod c17;
pub mod c18;
pub mod c19;
pub mod c20;
pub mod corridor;
pub mod dispatch;
pub mod path_geometry;
pub mod powertrain;
pub mod slts;
pub mod speed_profile;
pub mod train_props;
pub mod train_run;

use crate::engine::Property;

pub fn registry() -> Vec<&'static dyn Property> {
    vec![
        &powertrain::C01,
        &speed_profile::C02,
        &slts::C03,
        &dispatch::C04,
        &dispatch::C05,
        &path_geometry::C06,
        &train_props::C07,
        &powertrain::C08,
        &powertrain::C09,
        &powertrain::C10,
        &train_props::C11,
        &train_props::C12,
        &speed_profile::C13,
        &train_props::C14,
        &c15::C15,
        &c16::C16,
        &c17::C17,
        &c18::C18,
        &c19::C19,
        &c20::C20,
    ]
}
