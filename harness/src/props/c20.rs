//! C20 — mass / adhesion / maximum-force parameters stay mutually consistent under every
//! update.  Model-based: operation sequences with an invariant and per-option
//! post-conditions after every call.  Raw (private) fields are read and initialised through
//! the types' own serde impls — i.e. exactly what loading a user file does.

use crate::engine::*;
use altrios_core::consist::locomotive::powertrain::fuel_converter::FuelConverter;
use altrios_core::consist::locomotive::powertrain::generator::Generator;
use altrios_core::consist::locomotive::powertrain::reversible_energy_storage::ReversibleEnergyStorage;
use altrios_core::consist::locomotive::{ForceMaxSideEffect, Locomotive, MuSideEffect};
use altrios_core::consist::{Consist, PowerDistributionControlType, RESGreedy};
use altrios_core::traits::{Mass, MassSideEffect, SerdeAPI};
use altrios_core::uc;
use serde::{Deserialize, Serialize};
use serde_json::{json, Value};

const G: f64 = 9.801_548_494_963_14;

#[derive(Serialize, Deserialize, Clone, Debug)]
pub enum Op {
    /// component or locomotive: set_mass(Some(m) | None, side effect 0 None / 1 Extensive / 2 Intensive)
    SetMass(Option<f64>, u8),
    Expunge,
    /// component only: direct edit of the public rating (power W or capacity J)
    SetRating(f64),
    /// locomotive: set_mu(mu, 0 Mass / 1 ForceMax / 2 SetMassToNone)
    SetMu(f64, u8),
    /// locomotive: set_force_max(f, 0 Mass / 1 UpdateMu / 2 SetMuToNone / 3 SetMassToNone / 4 SetMassAndMuToNone)
    SetForceMax(f64, u8),
}

#[derive(Serialize, Deserialize, Clone, Debug)]
pub struct LocoInit {
    pub bel: bool,
    pub mass: Option<f64>,
    pub mu: Option<f64>,
    pub force_max: f64,
    pub baseline: Option<f64>,
    pub ballast: Option<f64>,
    /// component masses and specific values: (mass, specific) for fc, gen (conventional) or res (battery)
    pub comp_a: (Option<f64>, Option<f64>),
    pub comp_b: (Option<f64>, Option<f64>),
    /// hybrid locomotive: fc = comp_a, gen = comp_b, res = comp_c
    #[serde(default)]
    pub hybrid: bool,
    #[serde(default)]
    pub comp_c: (Option<f64>, Option<f64>),
}

#[derive(Serialize, Deserialize, Clone, Debug)]
pub struct C20Case {
    /// 0 fuel converter, 1 generator, 2 battery, 3 locomotive
    pub target: u8,
    pub comp_init: (Option<f64>, Option<f64>, f64),
    pub loco_init: Option<LocoInit>,
    pub ops: Vec<Op>,
    /// further locomotives (initial states only) to form a consist with the target afterwards
    pub others: Vec<LocoInit>,
    /// cars (and an optional explicit mass) to build a train around the consist afterwards
    #[serde(default)]
    pub cars: Vec<crate::gen::train::CarSpec>,
    #[serde(default)]
    pub train_mass: Option<f64>,
    /// fuel converter only: the file also carries a starting transient limit
    /// (`pwr_out_max_init`) of this fraction of the rating (0 = the default, none); the mass
    /// relation must not depend on it
    #[serde(default)]
    pub fc_init_frac: f64,
}

fn side(k: u8) -> MassSideEffect {
    match k {
        1 => MassSideEffect::Extensive,
        2 => MassSideEffect::Intensive,
        _ => MassSideEffect::None,
    }
}

fn num(v: &Value) -> Option<f64> {
    v.as_f64()
}

/// almost_eq as the code documents it (1e-8 relative or absolute)
fn aeq(a: f64, b: f64) -> bool {
    ((b - a) / (a + b)).abs() < 1e-8 || (b - a).abs() < 1e-8
}

// ---- components ----------------------------------------------------------------------

trait Comp: Mass + Sized {
    const RATING_KEY: &'static str;
    const SPECIFIC_KEY: &'static str;
    fn to_v(&self) -> Value;
    fn from_v(v: Value) -> anyhow::Result<Self>;
    fn default_v() -> Value;
    fn set_rating(&mut self, x: f64);
}
impl Comp for FuelConverter {
    const RATING_KEY: &'static str = "pwr_out_max_watts";
    const SPECIFIC_KEY: &'static str = "specific_pwr";
    fn to_v(&self) -> Value {
        serde_json::to_value(self).unwrap()
    }
    fn from_v(v: Value) -> anyhow::Result<Self> {
        Self::from_json(v.to_string())
    }
    fn default_v() -> Value {
        serde_json::to_value(FuelConverter::default()).unwrap()
    }
    fn set_rating(&mut self, x: f64) {
        self.pwr_out_max = uc::W * x;
    }
}
impl Comp for Generator {
    const RATING_KEY: &'static str = "pwr_out_max_watts";
    const SPECIFIC_KEY: &'static str = "specific_pwr";
    fn to_v(&self) -> Value {
        serde_json::to_value(self).unwrap()
    }
    fn from_v(v: Value) -> anyhow::Result<Self> {
        Self::from_json(v.to_string())
    }
    fn default_v() -> Value {
        serde_json::to_value(Generator::default()).unwrap()
    }
    fn set_rating(&mut self, x: f64) {
        self.pwr_out_max = uc::W * x;
    }
}
impl Comp for ReversibleEnergyStorage {
    const RATING_KEY: &'static str = "energy_capacity_joules";
    const SPECIFIC_KEY: &'static str = "specific_energy";
    fn to_v(&self) -> Value {
        serde_json::to_value(self).unwrap()
    }
    fn from_v(v: Value) -> anyhow::Result<Self> {
        Self::from_json(v.to_string())
    }
    fn default_v() -> Value {
        serde_json::to_value(ReversibleEnergyStorage::default()).unwrap()
    }
    fn set_rating(&mut self, x: f64) {
        self.energy_capacity = uc::J * x;
    }
}

#[derive(Clone, Copy, Debug, PartialEq)]
struct CompRaw {
    mass: Option<f64>,
    specific: Option<f64>,
    rating: f64,
}
fn comp_raw<C: Comp>(c: &C) -> CompRaw {
    let v = c.to_v();
    CompRaw { mass: num(&v["mass"]), specific: num(&v[C::SPECIFIC_KEY]), rating: num(&v[C::RATING_KEY]).unwrap_or(f64::NAN) }
}
fn comp_consistent(r: &CompRaw) -> bool {
    match (r.mass, r.specific) {
        (Some(m), Some(s)) => aeq(m, r.rating / s),
        _ => true,
    }
}

fn run_component<C: Comp>(case: &C20Case, cx: &mut Ctx, name: &str) {
    let (m0, s0, rating0) = case.comp_init;
    let mut v = C::default_v();
    v["mass"] = json!(m0);
    v[C::SPECIFIC_KEY] = json!(s0);
    v[C::RATING_KEY] = json!(rating0);
    if name == "fc" && case.fc_init_frac > 0.0 {
        v["pwr_out_max_init"] = json!(rating0 * case.fc_init_frac);
        cx.label("fuel_converter_file_carries_a_starting_transient_limit");
    }
    let init_raw = CompRaw { mass: m0, specific: s0, rating: rating0 };
    let loaded = C::from_v(v);
    // load with redundant mass data: accepted iff consistent (fuel converter does not check
    // on load — its init() is silent; the getter check below covers it)
    let mut c = match loaded {
        Ok(c) => {
            if !comp_consistent(&init_raw) && name != "fc" {
                cx.fail(format!("C20|load|{name}:inconsistent-redundant-mass-data-accepted"), format!("{init_raw:?} loaded without error"));
            }
            c
        }
        Err(e) => {
            if comp_consistent(&init_raw) {
                cx.fail(format!("C20|load|{name}:consistent-data-rejected"), format!("{init_raw:?}: {e:#}"));
            }
            cx.label("load_rejected");
            return;
        }
    };
    let mut accepted = 0;
    let mut kinds = std::collections::BTreeSet::new();
    for (k, op) in case.ops.iter().enumerate() {
        let before = comp_raw(&c);
        let was_consistent = comp_consistent(&before);
        let r = match op {
            Op::SetMass(m, s) => c.set_mass(m.map(|x| uc::KG * x), side(*s)),
            Op::Expunge => {
                c.expunge_mass_fields();
                Ok(())
            }
            Op::SetRating(x) => {
                c.set_rating(*x);
                Ok(())
            }
            _ => continue,
        };
        let after = comp_raw(&c);
        let ctxs = format!("op {k} {op:?}: before {before:?} after {after:?}");
        match (&r, op) {
            (Ok(()), Op::SetMass(Some(m), s)) => {
                accepted += 1;
                kinds.insert(*s);
                if after.mass != Some(*m) {
                    cx.fail(format!("C20|post|{name}:set_mass:mass-not-set"), ctxs.clone());
                }
                let derived = before.specific.map(|sp| before.rating / sp);
                match derived {
                    Some(d) if d != *m => match s {
                        1 => {
                            // Extensive: rating follows, specific value kept
                            if after.specific != before.specific || !aeq(after.rating, before.specific.unwrap() * m) {
                                cx.fail(format!("C20|post|{name}:Extensive"), ctxs.clone());
                            }
                        }
                        2 => {
                            if after.rating != before.rating || !after.specific.map(|sp| aeq(sp, before.rating / m)).unwrap_or(false) {
                                cx.fail(format!("C20|post|{name}:Intensive"), ctxs.clone());
                            }
                        }
                        _ => {
                            if after.rating != before.rating || after.specific.is_some() {
                                cx.fail(format!("C20|post|{name}:None"), ctxs.clone());
                            }
                        }
                    },
                    _ => {
                        if after.rating != before.rating || after.specific != before.specific {
                            cx.fail(format!("C20|post|{name}:set_mass-changed-unrelated-fields"), ctxs.clone());
                        }
                    }
                }
                if !comp_consistent(&after) {
                    cx.fail(format!("C20|inv|{name}:inconsistent-after-accepted-set_mass"), ctxs.clone());
                }
            }
            (Ok(()), Op::SetMass(None, _)) => {
                accepted += 1;
                if !comp_consistent(&after) {
                    cx.fail(format!("C20|inv|{name}:inconsistent-after-accepted-set_mass(None)"), ctxs.clone());
                }
            }
            (Ok(()), Op::Expunge) => {
                if after.mass.is_some() || after.specific.is_some() || after.rating != before.rating {
                    cx.fail(format!("C20|post|{name}:expunge"), ctxs.clone());
                }
            }
            (Err(_), _) => {
                cx.label("rejected_call");
                if was_consistent && !comp_consistent(&after) {
                    cx.fail(format!("C20|inv|{name}:rejected-call-left-object-inconsistent"), ctxs.clone());
                }
            }
            _ => {}
        }
        // the getter never reports a mass that contradicts the derived one
        match c.mass() {
            Ok(m) => {
                if !comp_consistent(&after) {
                    cx.fail(format!("C20|getter|{name}:mass()-ok-while-inconsistent"), ctxs.clone());
                }
                if m.map(|x| x.value) != after.mass {
                    cx.fail(format!("C20|getter|{name}:mass()-differs-from-field"), ctxs.clone());
                }
            }
            Err(_) => {
                if comp_consistent(&after) {
                    cx.fail(format!("C20|getter|{name}:mass()-err-while-consistent"), ctxs.clone());
                }
            }
        }
    }
    if accepted >= 3 && kinds.len() >= 2 {
        cx.nontrivial();
    }
}

// ---- locomotive ----------------------------------------------------------------------

#[derive(Clone, Debug, PartialEq)]
struct LocoRaw {
    mass: Option<f64>,
    mu: Option<f64>,
    force_max: f64,
    baseline: Option<f64>,
    ballast: Option<f64>,
    comp_masses: Vec<Option<f64>>,
    comp_consistent: bool,
}

fn loco_value(init: &LocoInit) -> Value {
    let base = if init.hybrid {
        Locomotive::default_hybrid_electric_loco()
    } else if init.bel {
        Locomotive::default_battery_electric_loco()
    } else {
        Locomotive::default()
    };
    let mut v = serde_json::to_value(&base).unwrap();
    v["mass"] = json!(init.mass);
    v["mu"] = json!(init.mu);
    v["force_max"] = json!(init.force_max);
    v["baseline_mass"] = json!(init.baseline);
    v["ballast_mass"] = json!(init.ballast);
    if init.hybrid {
        let h = &mut v["loco_type"]["HybridLoco"];
        h["fc"]["mass"] = json!(init.comp_a.0);
        h["fc"]["specific_pwr"] = json!(init.comp_a.1);
        h["gen"]["mass"] = json!(init.comp_b.0);
        h["gen"]["specific_pwr"] = json!(init.comp_b.1);
        h["res"]["mass"] = json!(init.comp_c.0);
        h["res"]["specific_energy"] = json!(init.comp_c.1);
    } else if init.bel {
        let r = &mut v["loco_type"]["BatteryElectricLoco"]["res"];
        r["mass"] = json!(init.comp_a.0);
        r["specific_energy"] = json!(init.comp_a.1);
    } else {
        let f = &mut v["loco_type"]["ConventionalLoco"]["fc"];
        f["mass"] = json!(init.comp_a.0);
        f["specific_pwr"] = json!(init.comp_a.1);
        let g = &mut v["loco_type"]["ConventionalLoco"]["gen"];
        g["mass"] = json!(init.comp_b.0);
        g["specific_pwr"] = json!(init.comp_b.1);
    }
    v
}

fn loco_raw(l: &Locomotive) -> LocoRaw {
    let v = serde_json::to_value(l).unwrap();
    let mut comp_masses = vec![];
    let mut cc = true;
    let mut comp = |c: &Value, spec_key: &str, rating_key: &str| {
        let r = CompRaw { mass: num(&c["mass"]), specific: num(&c[spec_key]), rating: num(&c[rating_key]).unwrap_or(f64::NAN) };
        comp_masses.push(r.mass);
        cc &= comp_consistent(&r);
    };
    if let Some(c) = v["loco_type"].get("ConventionalLoco") {
        comp(&c["fc"], "specific_pwr", "pwr_out_max_watts");
        comp(&c["gen"], "specific_pwr", "pwr_out_max_watts");
    }
    if let Some(c) = v["loco_type"].get("BatteryElectricLoco") {
        comp(&c["res"], "specific_energy", "energy_capacity_joules");
    }
    if let Some(c) = v["loco_type"].get("HybridLoco") {
        comp(&c["fc"], "specific_pwr", "pwr_out_max_watts");
        comp(&c["gen"], "specific_pwr", "pwr_out_max_watts");
        comp(&c["res"], "specific_energy", "energy_capacity_joules");
    }
    LocoRaw {
        mass: num(&v["mass"]),
        mu: num(&v["mu"]),
        force_max: num(&v["force_max"]).unwrap_or(f64::NAN),
        baseline: num(&v["baseline_mass"]),
        ballast: num(&v["ballast_mass"]),
        comp_masses,
        comp_consistent: cc,
    }
}

/// derived mass as documented: baseline + ballast + component masses when all are known;
/// None when none is known; otherwise the data is incomplete (Err)
fn loco_derived(r: &LocoRaw) -> Result<Option<f64>, ()> {
    match (r.baseline, r.ballast) {
        (Some(b), Some(l)) => {
            if r.comp_masses.iter().all(|m| m.is_some()) {
                Ok(Some(b + l + r.comp_masses.iter().map(|m| m.unwrap()).sum::<f64>()))
            } else {
                Err(())
            }
        }
        (None, None) => {
            if r.comp_masses.iter().all(|m| m.is_none()) {
                Ok(None)
            } else {
                Err(())
            }
        }
        _ => Err(()),
    }
}

fn loco_mass_consistent(r: &LocoRaw) -> bool {
    if !r.comp_consistent {
        return false;
    }
    match (loco_derived(r), r.mass) {
        (Ok(Some(d)), Some(m)) => aeq(m, d),
        (Ok(_), _) => true,
        (Err(()), _) => false,
    }
}
fn loco_force_consistent(r: &LocoRaw) -> bool {
    match (r.mu, r.mass) {
        (Some(mu), Some(m)) => aeq(r.force_max, mu * m * G),
        _ => true,
    }
}

fn build_loco(init: &LocoInit) -> anyhow::Result<Locomotive> {
    Locomotive::from_json(loco_value(init).to_string())
}

fn init_raw(init: &LocoInit) -> LocoRaw {
    let v = loco_value(init);
    let l: Locomotive = serde_json::from_value(v).expect("structurally valid locomotive JSON");
    loco_raw(&l)
}

fn run_loco(case: &C20Case, cx: &mut Ctx) {
    let init = case.loco_init.as_ref().unwrap();
    let raw0 = init_raw(init);
    cx.label(if init.hybrid {
        "hybrid_loco"
    } else if init.bel {
        "battery_loco"
    } else {
        "conventional_loco"
    });
    let mut l = match build_loco(init) {
        Ok(l) => {
            if !loco_mass_consistent(&raw0) {
                cx.fail("C20|load|loco:inconsistent-redundant-mass-data-accepted", format!("{raw0:?} loaded without error"));
            }
            l
        }
        Err(e) => {
            if loco_mass_consistent(&raw0) {
                cx.fail("C20|load|loco:consistent-data-rejected", format!("{raw0:?}: {e:#}"));
            }
            cx.label("load_rejected");
            cx.nontrivial();
            return;
        }
    };
    let mut accepted = 0;
    let mut kinds = std::collections::BTreeSet::new();
    for (k, op) in case.ops.iter().enumerate() {
        let before = loco_raw(&l);
        let ok_before = loco_mass_consistent(&before) && loco_force_consistent(&before);
        let r = match op {
            Op::SetMass(m, s) => l.set_mass(m.map(|x| uc::KG * x), side(*s)),
            Op::SetMu(mu, s) => l.set_mu(
                uc::R * *mu,
                match s {
                    0 => MuSideEffect::Mass,
                    1 => MuSideEffect::ForceMax,
                    _ => MuSideEffect::SetMassToNone,
                },
            ),
            Op::SetForceMax(f, s) => l.set_force_max(
                uc::N * *f,
                match s {
                    0 => ForceMaxSideEffect::Mass,
                    1 => ForceMaxSideEffect::UpdateMu,
                    2 => ForceMaxSideEffect::SetMuToNone,
                    3 => ForceMaxSideEffect::SetMassToNone,
                    _ => ForceMaxSideEffect::SetMassAndMuToNone,
                },
            ),
            Op::Expunge => {
                l.expunge_mass_fields();
                Ok(())
            }
            Op::SetRating(_) => continue,
        };
        let after = loco_raw(&l);
        let opname = match op {
            Op::SetMass(_, s) => format!("set_mass:{}", ["None", "Extensive", "Intensive"][*s as usize % 3]),
            Op::SetMu(_, s) => format!("set_mu:{}", ["Mass", "ForceMax", "SetMassToNone"][*s as usize % 3]),
            Op::SetForceMax(_, s) => format!("set_force_max:{}", ["Mass", "UpdateMu", "SetMuToNone", "SetMassToNone", "SetMassAndMuToNone"][*s as usize % 5]),
            Op::Expunge => "expunge".into(),
            _ => "other".into(),
        };
        let ctxs = format!("op {k} {op:?}: before {before:?} after {after:?} result {:?}", r.as_ref().map_err(|e| msg_class(&format!("{e:#}"), 80)));
        let ok_after = loco_mass_consistent(&after) && loco_force_consistent(&after);
        match &r {
            Ok(()) => {
                if !matches!(op, Op::Expunge) {
                    accepted += 1;
                    kinds.insert(opname.clone());
                }
                if ok_before && !loco_force_consistent(&after) {
                    cx.fail(format!("C20|inv|loco:force_max!=mu*mass*g-after-accepted:{opname}"), ctxs.clone());
                }
                if ok_before && !loco_mass_consistent(&after) && !matches!(op, Op::Expunge) {
                    cx.fail(format!("C20|inv|loco:mass!=derived-after-accepted:{opname}"), ctxs.clone());
                }
                // per-option post-conditions
                match op {
                    Op::SetMu(mu, 0) => {
                        if after.mu != Some(*mu) || !aeq(after.force_max, before.force_max) || !after.mass.map(|m| aeq(m, before.force_max / (mu * G))).unwrap_or(false) {
                            cx.fail("C20|post|loco:set_mu:Mass", ctxs.clone());
                        }
                    }
                    Op::SetMu(mu, 1) => {
                        // the mass in force is the set one or, failing that, the derived one
                        let eff = before.mass.or(loco_derived(&before).ok().flatten());
                        if after.mu != Some(*mu) || after.mass != before.mass || !eff.map(|m| aeq(after.force_max, mu * m * G)).unwrap_or(false) {
                            cx.fail("C20|post|loco:set_mu:ForceMax", ctxs.clone());
                        }
                    }
                    Op::SetMu(mu, _) => {
                        if after.mu != Some(*mu) || after.mass.is_some() || after.force_max != before.force_max {
                            cx.fail("C20|post|loco:set_mu:SetMassToNone", ctxs.clone());
                        }
                    }
                    Op::SetForceMax(f, 0) => {
                        if !aeq(after.force_max, *f) || after.mu != before.mu || !before.mu.and_then(|mu| after.mass.map(|m| aeq(m, f / (mu * G)))).unwrap_or(false) {
                            cx.fail("C20|post|loco:set_force_max:Mass", ctxs.clone());
                        }
                    }
                    Op::SetForceMax(f, 1) => {
                        let mu_ok = match before.mass {
                            Some(m) => after.mu.map(|mu| aeq(mu, f / (m * G))).unwrap_or(false),
                            None => true,
                        };
                        if after.force_max != *f || after.mass != before.mass || !mu_ok {
                            cx.fail("C20|post|loco:set_force_max:UpdateMu", ctxs.clone());
                        }
                    }
                    Op::SetForceMax(f, 2) => {
                        if after.force_max != *f || after.mu.is_some() || after.mass != before.mass {
                            cx.fail("C20|post|loco:set_force_max:SetMuToNone", ctxs.clone());
                        }
                    }
                    Op::SetForceMax(f, 3) => {
                        if after.force_max != *f || after.mass.is_some() || after.mu != before.mu {
                            cx.fail("C20|post|loco:set_force_max:SetMassToNone", ctxs.clone());
                        }
                    }
                    Op::SetForceMax(f, _) => {
                        if after.force_max != *f || after.mass.is_some() || after.mu.is_some() {
                            cx.fail("C20|post|loco:set_force_max:SetMassAndMuToNone", ctxs.clone());
                        }
                    }
                    Op::SetMass(Some(m), 0) => {
                        if after.mass != Some(*m) || after.mu != before.mu || !before.mu.map(|mu| aeq(after.force_max, mu * m * G)).unwrap_or(false) {
                            cx.fail("C20|post|loco:set_mass", ctxs.clone());
                        }
                    }
                    Op::SetMass(_, s) if *s != 0 => {
                        cx.fail("C20|accept|loco:set_mass-with-component-side-effect-accepted", ctxs.clone());
                    }
                    _ => {}
                }
                // after an accepted call the getters answer
                if ok_after {
                    if l.mass().is_err() || l.mu().is_err() || l.force_max().is_err() {
                        cx.fail(format!("C20|getter|loco:getter-err-after-accepted:{opname}"), ctxs.clone());
                    }
                }
            }
            Err(_) => {
                cx.label("rejected_call");
                cx.label(&format!("rejected:{opname}"));
                if ok_before && !ok_after {
                    cx.fail(format!("C20|inv|loco:rejected-call-left-object-inconsistent:{opname}"), ctxs.clone());
                }
                // an update that is consistent by construction must not be rejected when all
                // its inputs are known
                let must_work = match op {
                    Op::SetForceMax(_, 0) => before.mu.is_some() && ok_before && loco_derived(&before) == Ok(None),
                    Op::SetMass(Some(_), 0) => before.mu.is_some() && ok_before && loco_derived(&before) == Ok(None),
                    Op::SetMu(_, 0) => ok_before && loco_derived(&before) == Ok(None),
                    Op::SetMu(_, 1) => before.mass.is_some() && ok_before,
                    Op::SetForceMax(_, s) if *s >= 1 => true,
                    Op::SetMu(_, 2) => true,
                    _ => false,
                };
                // the statement allows rejection ("rejected or resolved"), so this is measured,
                // not asserted
                if must_work {
                    cx.label(&format!("resolvable_update_rejected:{opname}"));
                }
            }
        }
        // getters never answer Ok on an inconsistent object
        if !loco_force_consistent(&after) && l.force_max().is_ok() {
            cx.fail("C20|getter|loco:force_max()-ok-while-inconsistent", ctxs.clone());
        }
        if !loco_mass_consistent(&after) && l.mass().is_ok() {
            cx.fail("C20|getter|loco:mass()-ok-while-inconsistent", ctxs.clone());
        }
    }
    // ---- consist aggregates
    let mut locos = vec![l.clone()];
    for o in &case.others {
        if let Ok(x) = build_loco(o) {
            locos.push(x);
        }
    }
    let raws: Vec<LocoRaw> = locos.iter().map(loco_raw).collect();
    let con = Consist::new(locos.clone(), None, PowerDistributionControlType::RESGreedy(RESGreedy));
    let all_ok = raws.iter().all(|r| loco_mass_consistent(r) && loco_force_consistent(r));
    if all_ok {
        let masses: Vec<Option<f64>> = locos.iter().map(|x| x.mass().ok().flatten().map(|m| m.value)).collect();
        match con.mass() {
            Ok(Some(m)) => {
                if masses.iter().any(|x| x.is_none()) || !aeq(m.value, masses.iter().map(|x| x.unwrap()).sum()) {
                    cx.fail("C20|consist|mass!=sum-of-units", format!("consist mass {} vs unit masses {masses:?}", m.value));
                }
            }
            Ok(None) => {
                if masses.iter().any(|x| x.is_some()) {
                    cx.fail("C20|consist|mass-none-although-units-have-mass", format!("{masses:?}"));
                }
            }
            Err(_) => {
                let some = masses.iter().filter(|x| x.is_some()).count();
                if some == 0 || some == masses.len() {
                    cx.fail("C20|consist|mass-err-on-homogeneous-units", format!("{masses:?}"));
                }
            }
        }
        match con.force_max() {
            Ok(f) => {
                let s: f64 = raws.iter().map(|r| r.force_max).sum();
                if !aeq(f.value, s) {
                    cx.fail("C20|consist|force_max!=sum-of-units", format!("{} vs {s}", f.value));
                }
            }
            Err(e) => cx.fail("C20|consist|force_max-err-on-consistent-units", format!("{e:#}")),
        }
        cx.label_if(locos.len() > 1, "consist_aggregate_checked");
        // ---- train: static mass = cars (or the explicit override) + consist
        if let (false, Ok(Some(cm))) = (case.cars.is_empty(), con.mass()) {
            use crate::gen::net_chain::{build_chain, link_idxs, LinkSpec, SetSpec};
            let spec = crate::gen::train::TrainSpec {
                cars: case.cars.clone(),
                train_type: 1,
                length_override: None,
                mass_override: case.train_mass,
                dummy: false,
                units: vec![],
                pdct: 0,
                init_time: 0.0,
                hybrids: 0,
                late_battery: false,
                consist_limits_off: false,
            };
            let link = LinkSpec { length: 30000.0, elevs: vec![(0.0, 0.0), (30000.0, 0.0)], headings: vec![], cats: vec![], single: true, sets: vec![SetSpec { train_type: 1, head_end: false, params: vec![], limits: vec![(0.0, 30000.0, 20.0)] }], coords: 0 };
            let net = build_chain(&[link]);
            let built = (|| -> anyhow::Result<f64> {
                let tsb = altrios_core::train::TrainSimBuilder::new("t".into(), spec.build_config()?, con.clone(), None, None, None);
                let trace = altrios_core::train::SpeedTrace::new(vec![0.0, 1.0], vec![0.0, 0.5], None);
                let sim = tsb.make_set_speed_train_sim(&net, link_idxs(0..1), trace, None)?;
                Ok(sim.state.mass_static.value)
            })();
            match built {
                Ok(ms) => {
                    cx.label(if case.train_mass.is_some() { "train_mass_with_override" } else { "train_mass_from_cars" });
                    let towed = case.train_mass.unwrap_or_else(|| spec.cars_mass());
                    if !aeq(ms, towed + cm.value) {
                        cx.fail(
                            format!("C20|train|mass_static!={}+consist", if case.train_mass.is_some() { "override" } else { "cars" }),
                            format!("train static mass {ms} vs towed {towed} + consist {}", cm.value),
                        );
                    }
                }
                Err(e) => cx.label(&format!("train_not_built:{}", msg_class(&format!("{e:#}"), 30))),
            }
        }
    }
    if accepted >= 3 && kinds.len() >= 2 {
        cx.nontrivial();
    }
}

// ---- generator ------------------------------------------------------------------------

fn gen_opt(g: &mut Gen, p_some: f64, lo: f64, hi: f64) -> Option<f64> {
    if g.bool(p_some) {
        Some(Gen::round(g.f64(lo, hi), 0))
    } else {
        None
    }
}

fn gen_loco_init(g: &mut Gen) -> LocoInit {
    // 0 conventional, 1 battery-electric, 2 hybrid (engine, generator and battery)
    let kind = g.weighted(&[4, 3, 3]);
    let (bel, hybrid) = (kind == 1, kind == 2);
    let mass_world = Gen::round(g.f64(80.0e3, 220.0e3), 0);
    let (ra, rb) = if bel { (8.64e9, 0.0) } else { (3.356e6, 5.0e6) };
    let (ra, rb, rc) = if hybrid {
        // ratings of the shipped hybrid, read from its own image
        let v = serde_json::to_value(Locomotive::default_hybrid_electric_loco()).unwrap();
        let h = &v["loco_type"]["HybridLoco"];
        (num(&h["fc"]["pwr_out_max_watts"]).unwrap_or(ra), num(&h["gen"]["pwr_out_max_watts"]).unwrap_or(rb), num(&h["res"]["energy_capacity_joules"]).unwrap_or(8.64e9))
    } else {
        (ra, rb, 0.0)
    };
    // 0: no derived-mass data at all; 1: complete and consistent; 2: arbitrary (mostly
    // incomplete or contradictory: the load must then be rejected)
    let mode = g.weighted(&[4, 4, 2]);
    let comp = |g: &mut Gen, rating: f64, mode: usize| -> (Option<f64>, Option<f64>) {
        let pick = match mode {
            0 => 0,
            1 => 1 + g.weighted(&[3, 1]),
            _ => g.weighted(&[2, 2, 1, 2]),
        };
        match pick {
            0 => (None, None),
            1 => {
                let m = Gen::round(g.f64(2.0e3, 20.0e3), 0);
                (Some(m), Some(rating / m))
            }
            2 => (Some(Gen::round(g.f64(2.0e3, 20.0e3), 0)), None),
            _ => {
                let m = Gen::round(g.f64(2.0e3, 20.0e3), 0);
                (Some(m), Some(rating / m * 1.07))
            }
        }
    };
    let comp_a = comp(g, ra, mode);
    let comp_b = if bel { (None, None) } else { comp(g, rb, mode) };
    let comp_c = if hybrid { comp(g, rc, mode) } else { (None, None) };
    let (baseline, ballast) = match mode {
        0 => (None, None),
        1 => (Some(Gen::round(g.f64(50.0e3, 120.0e3), 0)), Some(Gen::round(g.f64(0.0, 30.0e3), 0))),
        _ => match g.weighted(&[2, 2, 1]) {
            0 => (None, None),
            1 => (Some(Gen::round(g.f64(50.0e3, 120.0e3), 0)), Some(Gen::round(g.f64(0.0, 30.0e3), 0))),
            _ => (Some(100.0e3), None),
        },
    };
    let comps_known = comp_a.0.is_some() && (bel || comp_b.0.is_some()) && (!hybrid || comp_c.0.is_some());
    let derived = if comps_known && baseline.is_some() && ballast.is_some() {
        Some(baseline.unwrap() + ballast.unwrap() + comp_a.0.unwrap() + comp_b.0.unwrap_or(0.0) + comp_c.0.unwrap_or(0.0))
    } else {
        None
    };
    let mass = match (mode, g.weighted(&[5, 2, 1])) {
        (_, 0) => derived.or(Some(mass_world)),
        (_, 1) => None,
        (2, _) => Some(mass_world), // possibly contradicting the derived mass
        _ => derived.or(Some(mass_world)),
    };
    let mu = if g.bool(0.6) { Some(Gen::round(g.f64(0.15, 0.45), 3)) } else { None };
    let force_max = match (mu, mass) {
        (Some(mu), Some(m)) if mode != 2 || g.bool(0.7) => mu * m * G,
        _ => Gen::round(g.f64(200.0e3, 900.0e3), 0),
    };
    LocoInit { bel, mass, mu, force_max, baseline, ballast, comp_a, comp_b, hybrid, comp_c }
}

pub struct C20;
impl C20 {
    fn gen(g: &mut Gen, _tier: Tier) -> C20Case {
        let target = g.weighted(&[2, 2, 2, 6]) as u8;
        let n_ops = g.usize(1, 12);
        let mut ops = vec![];
        let rating0 = if target == 2 { Gen::round(g.f64(0.5e9, 10.0e9), 0) } else { Gen::round(g.f64(0.5e6, 6.0e6), 0) };
        let m0 = gen_opt(g, 0.6, 500.0, 30.0e3);
        let s0 = match g.weighted(&[4, 4, 1]) {
            0 => None,
            1 => Some(rating0 / m0.unwrap_or(5000.0)),
            _ => Some(rating0 / m0.unwrap_or(5000.0) * 1.1),
        };
        for _ in 0..n_ops {
            if target <= 2 {
                ops.push(match g.weighted(&[8, 1, 2]) {
                    0 => Op::SetMass(gen_opt(g, 0.85, 500.0, 30.0e3), g.int(0, 2) as u8),
                    1 => Op::Expunge,
                    _ => Op::SetRating(if target == 2 { Gen::round(g.f64(0.5e9, 10.0e9), 0) } else { Gen::round(g.f64(0.5e6, 6.0e6), 0) }),
                });
            } else {
                ops.push(match g.weighted(&[4, 4, 6, 1]) {
                    0 => Op::SetMass(gen_opt(g, 0.85, 80.0e3, 220.0e3), if g.bool(0.9) { 0 } else { g.int(1, 2) as u8 }),
                    1 => Op::SetMu(Gen::round(g.f64(0.15, 0.45), 3), g.int(0, 2) as u8),
                    2 => Op::SetForceMax(Gen::round(g.f64(200.0e3, 900.0e3), 0), g.int(0, 4) as u8),
                    _ => Op::Expunge,
                });
            }
        }
        let loco_init = if target == 3 { Some(gen_loco_init(g)) } else { None };
        let others = if target == 3 { (0..g.usize(0, 3)).map(|_| gen_loco_init(g)).collect() } else { vec![] };
        let (cars, train_mass) = if target == 3 && g.bool(0.5) {
            let mut cars: Vec<_> = (0..g.usize(1, 3)).map(|t| crate::gen::train::gen_car(g, ["Bulk", "Manifest", "Intermodal"][t], 40)).collect();
            // a listed car type without cars (count 0), anywhere in the list
            if g.bool(0.25) {
                let mut z = crate::gen::train::gen_car(g, "Hopper", 5);
                z.n = 0;
                let at = g.usize(0, cars.len());
                cars.insert(at, z);
            }
            let sum: f64 = cars.iter().map(|c| c.mass() * c.n as f64).sum();
            let tm = if g.bool(0.5) { Some(Gen::round(sum * g.grid(0.7, 1.4, 14) + 0.5, 1)) } else { None };
            (cars, tm)
        } else {
            (vec![], None)
        };
        let fc_init_frac = if target == 0 && g.bool(0.35) { g.grid(0.05, 0.6, 11) } else { 0.0 };
        C20Case { target, comp_init: (m0, s0, rating0), loco_init, ops, others, cars, train_mass, fc_init_frac }
    }
    fn check(case: &C20Case, cx: &mut Ctx) {
        match case.target {
            0 => {
                cx.label("fuel_converter");
                run_component::<FuelConverter>(case, cx, "fc")
            }
            1 => {
                cx.label("generator");
                run_component::<Generator>(case, cx, "gen")
            }
            2 => {
                cx.label("battery");
                run_component::<ReversibleEnergyStorage>(case, cx, "res")
            }
            _ => run_loco(case, cx),
        }
    }
}

impl Property for C20 {
    fn id(&self) -> &'static str {
        "C20"
    }
    fn cases(&self, tier: Tier) -> usize {
        match tier {
            Tier::Quick => 30000,
            Tier::Thorough => 180000,
        }
    }
    crate::typed_property!(C20, C20Case);
    fn rule(&self) -> String {
        "object in {fuel converter, generator, battery, conventional / battery locomotive} loaded from JSON with every combination of known/unknown (and consistent/contradictory) mass, specific value, baseline/ballast, component masses, adhesion and force; 1-12 generated setter calls with all side-effect options (plus expunge and direct rating edits on components); after every call: force_max == mu*mass*g and mass == derived mass whenever both sides are known, per-option post-conditions as the enum docs state them, a rejected call must not turn a consistent object inconsistent, updates whose inputs are all known must not be rejected, getters never answer Ok on an inconsistent object; finally consist mass / force_max == sums over 1-4 such locomotives. Non-trivial: >= 3 accepted calls with >= 2 different side-effect options, or a load that must be rejected".into()
    }
    fn assumptions(&self) -> Vec<String> {
        vec![
            "equality is the code's documented almost_eq (1e-8 relative or absolute)".into(),
            "private fields are read and initialised through serde (what loading a file does)".into(),
            "set_mass(None, ..) on components is only required to leave the object consistent (docs and code disagree on what it should do)".into(),
        ]
    }
}
