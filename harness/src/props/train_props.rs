//! Property wrappers over train runs: C07, C11, C12, C14 (and C03 in slts.rs).

use crate::engine::*;
use crate::props::slts::gen_slts_case;
use crate::props::train_run::*;

fn mixed_case(g: &mut Gen, tier: Tier, slts_share: f64) -> TrainCase {
    if g.bool(slts_share) {
        let mut c = gen_slts_case(g, tier, false);
        // a third of the link-by-link runs go through `walk_timed_path` instead: link k is
        // handed over when a train at 5-30 m/s would reach it (slow paces make the train wait
        // at the end of its known path, fast ones hand several links over at once)
        if c.mode == 2 && c.links.len() >= 2 && g.bool(0.35) {
            c.mode = 4;
            c.timed_speed = Gen::round(g.f64(5.0, 30.0), 1);
            c.also_real_walk = false;
        }
        c
    } else {
        gen_set_speed_case(g, tier, false)
    }
}

fn run_labels(case: &TrainCase, run: &TrainRun, cx: &mut Ctx) {
    cx.label(match case.mode {
        0 => "set_speed",
        1 => "slts_whole_path",
        4 => "slts_walk_timed_path",
        _ => "slts_link_by_link",
    });
    cx.label_if(case.train.dummy, "dummy_consist");
    cx.label_if(case.train.hybrids > 0, "consist_with_hybrid_locomotive");
    cx.label_if(case.train.late_battery, "consist_given_its_battery_units_through_set_loco_vec");
    cx.label_if(case.train.consist_limits_off, "consist_runs_with_limit_checking_off");
    cx.label_if(case.train.cars.iter().any(|c| c.n == 0), "car_type_listed_with_zero_cars");
    cx.label_if(case.init_offset_extra > 0.0, "starts_further_along_the_path");
    cx.label_if(case.and_parts, "built_through_and_parts_constructor");
    cx.label_if(case.hand_assembled, "assembled_by_hand_on_the_extended_path");
    cx.label_if(case.init_offset_abs.is_some() && run.states.last().map(|s| s.offset.value == run.offset_end).unwrap_or(false), "run_ends_with_the_front_exactly_on_the_end_of_the_path");
    cx.label_if(case.train.length_override.is_some(), "length_override");
    cx.label_if(case.train.mass_override.is_some(), "mass_override");
    cx.label_if(case.train.cars.len() > 1, "car_mix");
    let total: f64 = case.links.iter().map(|l| l.length).sum();
    cx.label_if(case.links.iter().any(|l| l.length < case.train.length()), "train_longer_than_a_link");
    cx.label_if(total > 0.0 && case.links.len() > 1, "multi_link");
    cx.label_if(run.result.is_err(), "run_ended_with_err");
    cx.count("saved_steps", run.states.len() as u64);
    if let (Some(a), Some(b)) = (run.states.first(), run.states.last()) {
        let d = (b.offset.value - a.offset.value).max(0.0) as u64;
        cx.count(if case.mode == 0 { "metres_travelled_set_speed" } else { "metres_travelled_slts" }, d);
        cx.count(if case.mode == 0 { "saved_steps_set_speed" } else { "saved_steps_slts" }, run.states.len() as u64);
        let ahead: Vec<f64> = run.link_point_offsets.iter().cloned().filter(|x| *x > a.offset.value).collect();
        cx.count("boundaries_ahead_of_start", ahead.len() as u64);
        if let Some(f) = ahead.first() { cx.count("metres_to_first_boundary", (*f - a.offset.value) as u64); }
    }
}

fn prep(case: &TrainCase, cx: &mut Ctx) -> Option<TrainRun> {
    let run = run_case(case);
    if !run.built {
        cx.discard(&format!("build_err:{}", msg_class(&run.build_err, 50)));
        return None;
    }
    if let Err(e) = &run.result {
        if e.contains(STALL_MSG) || e.contains(SLOW_MSG) {
            // C03's business (never-ending walk); nothing further to observe here
            cx.label("run_stalled_or_too_long");
        }
    }
    run_labels(case, &run, cx);
    if let Err(e) = &run.result {
        cx.label(&format!("err:{}", msg_class(e.lines().last().unwrap_or(""), 50)));
    }
    Some(run)
}

fn train_assumptions() -> Vec<String> {
    vec![
        "chain networks of 1-6 links (50 m - 12 km each; the first link of speed-limited runs is at least 4-6 km so the braking curve fits), 2-7 elevation points per link continuous across junctions, grade <= 2 % (<= 1 % for speed-limited runs), 0 or 2-6 heading points incl. wrap-around, 0-3 catenary sections".into(),
        "trains: 1-3 car types derived from the shipped rolling stock +-30 %, 3-120 cars, optional length / mass override, consist of 1-8 generated conventional / battery units sized to 0.5-2.5 W per kg".into(),
        "set-speed traces: 3-200 (thorough 400) points, irregular dt 0.2-5 s, accelerate / cruise / brake segments, distance kept inside the path".into(),
        "forces of saved step k are compared at (offset, speed) of saved step k-1: the code computes resistance before it moves the train".into(),
        "save_interval = 1 (every step observed); properties speak of saved steps only".into(),
    ]
}

// ---------------------------------------------------------------------------------------

pub struct C07;
impl C07 {
    fn gen(g: &mut Gen, tier: Tier) -> TrainCase {
        let mut c = mixed_case(g, tier, 0.3);
        // a fifth of the set-speed cases are assembled by hand on the extended path
        if c.mode == 0 && g.bool(0.2) {
            c.hand_assembled = true;
        }
        c
    }
    fn check(case: &TrainCase, cx: &mut Ctx) {
        let Some(run) = prep(case, cx) else { return };
        let rc = RunCtx::new(case, &run);
        let (straddle, crossed) = check_forces(&rc, cx);
        cx.label_if(straddle, "straddles_grade_breakpoint");
        cx.label_if(crossed, "crosses_link_boundary");
        if straddle && crossed && run.states.len() > 5 {
            cx.nontrivial();
        }
    }
}
impl Property for C07 {
    fn id(&self) -> &'static str {
        "C07"
    }
    fn cases(&self, tier: Tier) -> usize {
        match tier {
            Tier::Quick => 12000,
            Tier::Thorough => 72000,
        }
    }
    fn tape_len(&self, _t: Tier) -> usize {
        6144
    }
    crate::typed_property!(C07, TrainCase);
    fn rule(&self) -> String {
        "set-speed (70 %) and speed-limited (30 %) runs over generated chain networks and trains; for every saved step k>=1 grade/curve resistance == W*(E(front)-E(back))/L resp. W*(K(front)-K(back))/L from an independent walk of the network's own elevation/heading points, rolling/Davis-B/bearing/aero == coefficients re-derived from the car list, weight == g*(cars+locomotives), elev_front == E(front), grade_front/back in {left,right slope} at front/rear. Non-trivial: train straddles a grade breakpoint at some step and crosses a link boundary; distinct = distinct case JSON".into()
    }
    fn assumptions(&self) -> Vec<String> {
        train_assumptions()
    }
}

pub struct C12;
impl C12 {
    fn gen(g: &mut Gen, tier: Tier) -> TrainCase {
        mixed_case(g, tier, 0.3)
    }
    fn check(case: &TrainCase, cx: &mut Ctx) {
        let Some(run) = prep(case, cx) else { return };
        let rc = RunCtx::new(case, &run);
        let max_cross = check_kinematics(&rc, cx);
        cx.label_if(max_cross >= 1, "step_crosses_boundary");
        cx.label_if(max_cross >= 2, "step_crosses_2+_boundaries");
        if max_cross >= 1 && run.states.len() > 5 {
            cx.nontrivial();
        }
    }
}
impl Property for C12 {
    fn id(&self) -> &'static str {
        "C12"
    }
    fn cases(&self, tier: Tier) -> usize {
        match tier {
            Tier::Quick => 12000,
            Tier::Thorough => 72000,
        }
    }
    fn tape_len(&self, _t: Tier) -> usize {
        6144
    }
    crate::typed_property!(C12, TrainCase);
    fn rule(&self) -> String {
        "same runs as C07 (links down to 50 m so a step can cross several boundaries); per saved step: time advance == dt (4 ulp), offset advance == dt*(v0+v1)/2, offset_back == offset - length, total_dist == sum |advance|, link_idx_front on the route with base offset + offset_in_link == offset and 0 <= offset_in_link <= segment length. Non-trivial: some step crosses >= 1 link boundary".into()
    }
    fn assumptions(&self) -> Vec<String> {
        train_assumptions()
    }
}

pub struct C11;
impl C11 {
    fn gen(g: &mut Gen, tier: Tier) -> TrainCase {
        let mut c = mixed_case(g, tier, 0.4);
        // any positive number of days: fixed picks around one year and several years, or a free draw
        c.simulation_days = match g.weighted(&[2, 4, 3]) {
            0 => None,
            1 => Some([1, 7, 365, 2, 30, 90, 364, 366, 367, 730, 731, 1461, 3653][g.idx(13)]),
            _ => Some(g.int(1, 4000) as i32),
        };
        c.scenario_year = [None, Some(2030), Some(2050), Some(7)][g.idx(4)];
        c.and_parts = g.bool(0.35);
        // 25 %: one or two default hybrid locomotives join the generated units
        if !c.train.dummy && g.bool(0.25) {
            c.train.hybrids = g.usize(1, 2);
        }
        // 20 %: the consist object first held its fuel-only units
        c.train.late_battery = g.bool(0.2);
        // 15 %: the consist runs with limit checking off
        c.train.consist_limits_off = g.bool(0.15);
        c
    }
    fn check(case: &TrainCase, cx: &mut Ctx) {
        let Some(run) = prep(case, cx) else { return };
        let rc = RunCtx::new(case, &run);
        let (pos, neg) = check_levels(&rc, cx);
        let n_bel = case.train.units.iter().filter(|u| u.is_bel()).count();
        let mixed = n_bel > 0 && n_bel < case.train.units.len();
        cx.label_if(mixed, "mixed_consist");
        cx.label_if(pos && neg, "both_power_signs");
        if pos && neg && mixed {
            cx.nontrivial();
        }
    }
}
impl Property for C11 {
    fn id(&self) -> &'static str {
        "C11"
    }
    fn cases(&self, tier: Tier) -> usize {
        match tier {
            Tier::Quick => 12000,
            Tier::Thorough => 72000,
        }
    }
    fn tape_len(&self, _t: Tier) -> usize {
        6144
    }
    crate::typed_property!(C11, TrainCase);
    fn rule(&self) -> String {
        "set-speed (60 %) and speed-limited (40 %) runs; per saved step train.pwr_whl_out == consist.pwr_out_req == consist.pwr_out (1e-8) == sum loco.pwr_out, cumulative wheel energy and its positive/negative parts identical at train, consist and summed-locomotive level; at the end consist fuel / battery totals == sums over components and (speed-limited) trip getters == totals x 365.25/simulation_days for annualize in {false,true}, days None or 1..4000 (fixed picks around one and several years, or a free draw), scenario year in {None,2030,2050,7}; 35 % of the sims are built through the ..._and_parts sibling constructors. Non-trivial: both power signs and a mixed conventional/battery consist".into()
    }
    fn assumptions(&self) -> Vec<String> {
        train_assumptions()
    }
}

pub struct C14;
impl C14 {
    fn gen(g: &mut Gen, tier: Tier) -> TrainCase {
        let mut c = gen_set_speed_case(g, tier, true);
        // the trace, not the initial state, is what the first step starts from
        c.init_speed_zero = g.bool(0.2);
        // rejection clause: a negative entry at a chosen index
        if g.bool(0.15) && c.trace.len() >= 2 {
            let i = g.idx(c.trace.len());
            c.trace[i].1 = -Gen::round(g.f64(0.01, 3.0), 2);
        }
        c
    }
    fn check(case: &TrainCase, cx: &mut Ctx) {
        let Some(run) = prep(case, cx) else { return };
        let neg_at = case.trace.iter().position(|p| p.1 < 0.0);
        if let Some(i) = neg_at {
            cx.label("negative_entry");
            cx.label_if(i == 0, "negative_first_entry");
            if run.result.is_ok() {
                cx.fail(
                    format!("C14|accept|negative-speed-trace-accepted:{}", if i == 0 { "first-entry" } else { "later-entry" }),
                    format!("trace entry {i} is {} m/s but walk() returned Ok", case.trace[i].1),
                );
            }
            cx.nontrivial();
            return;
        }
        let st = &run.states;
        let con = &run.con;
        let t = &case.train;
        let m_c = t.mass_static() + t.mass_rot();
        let mut clipped_hi = false;
        let mut clipped_lo = false;
        for k in 1..st.len().min(con.len()) {
            let (p, s, c) = (&st[k - 1], &st[k], &con[k]);
            let (t0, v0) = case.trace[k - 1];
            let (t1, v1) = case.trace[k];
            let dt = t1 - t0;
            if s.time.value != t1 || s.speed.value != v1 {
                cx.fail("C14|trace|time-or-speed-differs-from-trace", format!("saved step {k}: (time, speed) = ({}, {}) but trace says ({t1}, {v1})", s.time.value, s.speed.value));
            }
            let res_net = s.res_rolling.value + s.res_bearing.value + s.res_davis_b.value + s.res_aero.value + s.res_grade.value + s.res_curve.value;
            let accel = m_c / (2.0 * dt) * (v1 * v1 - v0 * v0);
            let resp = res_net * 0.5 * (v1 + v0);
            let raw = accel + resp;
            let scale = accel.abs() + resp.abs() + 1.0;
            if !close(s.pwr_accel.value, accel, scale, 1e-9) {
                cx.fail("C14|power|pwr_accel", format!("saved step {k}: pwr_accel {} vs m_c/(2dt)*(v1^2-v0^2) = {accel} (m_c {m_c}, dt {dt}, v {v0}->{v1})", s.pwr_accel.value));
            }
            if !close(s.pwr_res.value, resp, scale, 1e-9) {
                cx.fail("C14|power|pwr_res", format!("saved step {k}: pwr_res {} vs res_net*mean speed = {resp}", s.pwr_res.value));
            }
            // clipping: upper = published traction limit (two admissible readings of the
            // rate term's dt), lower = -dynamic braking capability
            let pmax = c.pwr_out_max.value;
            let rate = c.pwr_rate_out_max.value;
            let dyn_max = c.pwr_dyn_brake_max.value.max(0.0);
            let prev = p.pwr_whl_out.value;
            let u_a = pmax.min((prev + rate * dt).max(0.0));
            let u_b = pmax.min((prev + rate * p.dt.value).max(0.0));
            let got = s.pwr_whl_out.value;
            let want_a = raw.max(-dyn_max).min(u_a);
            let want_b = raw.max(-dyn_max).min(u_b);
            if !(close(got, want_a, scale, 1e-9) || close(got, want_b, scale, 1e-9)) {
                cx.fail("C14|power|pwr_whl_out!=clamp(inertia+resistance)", format!("saved step {k}: pwr_whl_out {got} vs clamp({raw}, -{dyn_max}, {u_a} or {u_b})"));
            }
            if !(got <= pmax * (1.0 + 1e-12) + 1e-9 && got >= -dyn_max * (1.0 + 1e-12) - 1e-9) {
                cx.fail("C14|power|pwr_whl_out-outside-published-limits", format!("saved step {k}: {got} outside [-{dyn_max}, {pmax}]"));
            }
            clipped_hi |= got < raw;
            clipped_lo |= got > raw;
            let de = s.energy_whl_out.value - p.energy_whl_out.value;
            if !close(de, got * dt, s.energy_whl_out.value.abs() + (got * dt).abs() + 1.0, 1e-9) {
                cx.fail("C14|energy|energy_whl_out-step!=pwr*trace-dt", format!("saved step {k}: energy advanced {de} vs pwr {got} * dt {dt}"));
            }
            // its positive and negative parts accumulate the same (clipped) power
            let dpos = s.energy_whl_out_pos.value - p.energy_whl_out_pos.value;
            let dneg = s.energy_whl_out_neg.value - p.energy_whl_out_neg.value;
            let escale = s.energy_whl_out_pos.value.abs() + s.energy_whl_out_neg.value.abs() + (got * dt).abs() + 1.0;
            if !close(dpos, got.max(0.0) * dt, escale, 1e-9) {
                cx.fail("C14|energy|energy_whl_out_pos-step!=max(pwr,0)*trace-dt", format!("saved step {k}: positive wheel energy advanced {dpos} vs max({got}, 0) * dt {dt}"));
            }
            if !close(dneg, (-got).max(0.0) * dt, escale, 1e-9) {
                cx.fail("C14|energy|energy_whl_out_neg-step!=max(-pwr,0)*trace-dt", format!("saved step {k}: negative wheel energy advanced {dneg} vs max(-{got}, 0) * dt {dt} (unclipped demand {raw})"));
            }
        }
        cx.label_if(case.init_speed_zero && case.trace[0].1 > 0.0, "initial_state_at_rest_but_trace_starts_moving");
        cx.label_if(clipped_hi, "clipped_at_traction_limit");
        cx.label_if(clipped_lo, "clipped_at_dyn_brake_limit");
        cx.count("steps_checked", st.len().saturating_sub(1) as u64);
        let irregular = case.trace.windows(2).map(|w| (Gen::round(w[1].0 - w[0].0, 3) * 1000.0) as i64).collect::<std::collections::BTreeSet<_>>().len() > 1;
        cx.label_if(irregular, "irregular_dt");
        if st.len() > 10 && irregular {
            cx.nontrivial();
        }
    }
}
impl Property for C14 {
    fn id(&self) -> &'static str {
        "C14"
    }
    fn cases(&self, tier: Tier) -> usize {
        match tier {
            Tier::Quick => 16000,
            Tier::Thorough => 96000,
        }
    }
    fn tape_len(&self, _t: Tier) -> usize {
        6144
    }
    crate::typed_property!(C14, TrainCase);
    fn rule(&self) -> String {
        "set-speed runs (20 % with a DummyLoco consist) over generated routes/trains/traces; per saved step time and speed == trace (exact), pwr_accel == m_c/(2dt)(v1^2-v0^2), pwr_res == res_net*mean speed, pwr_whl_out == clamp(sum, -dyn-brake capability, published traction limit) (either reading of the rate term's dt accepted), energy advance == pwr x trace dt; 15 % of traces carry one negative entry at a generated index (incl. index 0) and must make walk() return Err. Non-trivial: > 10 saved steps with irregular dt, or a negative-entry case".into()
    }
    fn assumptions(&self) -> Vec<String> {
        train_assumptions()
    }
}
