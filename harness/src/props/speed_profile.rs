//! C02 (enforced limit never above a posted restriction / speed_max) and C13 (enforced limit
//! is exactly the tightest restriction, canonical profile).  DESIGN.md §5 C02/C13.
//!
//! Oracle: brute-force pointwise minimum over all restrictions of all links, evaluated at the
//! midpoint of every pair of consecutive breakpoints (both functions are piecewise constant
//! with breakpoints inside the breakpoint set, so midpoints decide the whole axis).

use crate::engine::*;
use crate::gen::net_chain::*;
use altrios_core::track::*;
use serde::{Deserialize, Serialize};

#[derive(Serialize, Deserialize, Clone, Debug)]
pub struct SpeedCase {
    pub tp: TrainParamSpec,
    pub links: Vec<LinkSpec>,
    pub partition: Vec<usize>,
    /// when present, the train parameters handed to the path are not written by hand but
    /// derived by the code itself (`TrainConfig::make_train_params`) from this car list; `tp`
    /// then holds what the documented formulas give for it
    #[serde(default)]
    pub train: Option<crate::gen::train::TrainSpec>,
}

pub fn gen_speed_case(g: &mut Gen, tier: Tier) -> SpeedCase {
    // 15 %: parameters derived from a generated car list (no parameter gates then: a gate
    // sitting exactly on a derived value must not depend on the last bit of a sum)
    let train = if g.bool(0.15) { Some(crate::gen::train::gen_train(g, &crate::gen::train::TrainOpts { max_cars: 120, allow_dummy: false, allow_overrides: true, min_w_per_kg: 1.0, max_w_per_kg: 2.0 })) } else { None };
    let tp = match &train {
        Some(t) => t.params(),
        None => gen_train_params(g),
    };
    let o = ChainOpts {
        geometry: false,
        max_links: if tier == Tier::Thorough { 8 } else { 6 },
        gates: train.is_none(),
        ..Default::default()
    };
    let links = gen_chain(g, &tp, &o);
    let partition = gen_partition(g, links.len());
    SpeedCase { tp, links, partition, train }
}

/// reference posted limit at route position x (half-open coverage [start, end(+len)) )
pub fn posted(case: &SpeedCase, bases: &[f64], x: f64) -> f64 {
    let mut p = case.tp.speed_max;
    for (j, l) in case.links.iter().enumerate() {
        let Some(set) = l.set_for(case.tp.train_type) else { continue };
        if !set.applies(&case.tp) {
            continue;
        }
        let add = if set.head_end { 0.0 } else { case.tp.length };
        for (a, b, s) in &set.limits {
            // restrictions are enforced by magnitude (a negative speed is a marked restriction)
            if bases[j] + a <= x && x < bases[j] + b + add && s.abs() < p {
                p = s.abs();
            }
        }
    }
    p
}

pub fn bases(case: &SpeedCase) -> Vec<f64> {
    let mut b = vec![0.0];
    for l in &case.links {
        b.push(b.last().unwrap() + l.length);
    }
    b
}

/// Build the profile with the given partition; Err(text) if extend fails
pub fn build_path(case: &SpeedCase, partition: &[usize]) -> Result<PathTpc, String> {
    let net = build_chain(&case.links);
    let params = match &case.train {
        Some(t) => t.build_config().and_then(|c| c.make_train_params()).map_err(|e| format!("train params: {e:#}"))?,
        None => case.tp.build(),
    };
    let mut path = PathTpc::new(params);
    let mut at = 0usize;
    for k in partition {
        path.extend(&net, link_idxs(at..at + k)).map_err(|e| format!("{e:#}"))?;
        at += k;
    }
    Ok(path)
}

fn classify_nontrivial(case: &SpeedCase, cx: &mut Ctx) -> (bool, bool) {
    // (overlap_or_nest_or_tail_reach, strictly_nested)
    let b = bases(case);
    let mut overlap = false;
    let mut nested = false;
    let mut n_app = 0;
    for (j, l) in case.links.iter().enumerate() {
        let Some(set) = l.set_for(case.tp.train_type) else { continue };
        if !set.applies(&case.tp) {
            cx.label("gated_off_set");
            continue;
        }
        let add = if set.head_end { 0.0 } else { case.tp.length };
        if !set.head_end {
            cx.label("tail_end_set");
        }
        let eff: Vec<(f64, f64, f64)> = set
            .limits
            .iter()
            .filter(|(_, _, s)| *s < case.tp.speed_max)
            .map(|(a, bb, s)| (*a, *bb + add, *s))
            .collect();
        n_app += eff.len();
        for (i, x) in eff.iter().enumerate() {
            if x.0 == x.1 {
                cx.label("zero_length_restriction");
            }
            if x.1 + b[j] > b[j + 1] && j + 1 < case.links.len() {
                overlap = true;
                cx.label("tail_reaches_next_link");
            }
            for (k, y) in eff.iter().enumerate() {
                if i == k {
                    continue;
                }
                if x.0 < y.1 && y.0 < x.1 {
                    overlap = true;
                }
                if y.0 < x.0 && x.1 < y.1 {
                    nested = true;
                    if x.2 < y.2 {
                        cx.label("nested_inner_tighter");
                    }
                }
                if x.1 == y.0 {
                    cx.label("abutting");
                }
                if x.0 == y.0 && i < k {
                    cx.label("same_start");
                }
                if x.1 == y.1 && i < k {
                    cx.label("same_end");
                }
            }
        }
    }
    cx.label_if(n_app == 0, "no_applicable_restriction");
    cx.label_if(case.partition.len() > 1, "multi_extend");
    cx.label_if(overlap, "overlap");
    cx.label_if(nested, "nested");
    (overlap, nested)
}

pub fn check_speed(case: &SpeedCase, cx: &mut Ctx, id: &str, exact: bool) {
    // parameters derived from a car list: the train *length* the oracle works with is the one
    // the code derived (a sum over car types whose last bit depends on the order of addition
    // would otherwise move break points by 1e-13 m); the maximum speed, which is what these
    // two properties are about, stays the oracle's own (minimum over the types actually in
    // the train)
    let adjusted;
    let case = match &case.train {
        Some(t) => match catch(|| t.build_config().and_then(|c| c.make_train_params())) {
            Ok(Ok(p)) => {
                // ... but only when it agrees with the oracle's own to 1e-9: with a length
                // override the oracle keeps the override (the length the simulated train has),
                // and a derived length that is neither shows as a profile that is extended by
                // the wrong amount
                let want = t.length();
                let close = (p.length.value - want).abs() <= 1e-9 * want.abs().max(1.0);
                cx.label_if(t.length_override.is_some(), "train_length_override");
                cx.label_if(!close, "derived_train_length_differs_from_override_or_car_sum");
                let p_length = if close && t.length_override.is_none() { p.length.value } else { want };
                let mut c = case.clone();
                c.tp.length = p_length;
                adjusted = c;
                &adjusted
            }
            _ => {
                cx.discard("train_params_not_derivable");
                return;
            }
        },
        None => case,
    };
    let (overlap, nested) = classify_nontrivial(case, cx);
    // degenerate class kept apart so that it cannot mask (or be masked by) the main class
    let z = if cx.labels.contains("zero_length_restriction") { ":zero-length" } else { "" };
    let built = catch(|| build_path(case, &case.partition));
    let path = match built {
        Err(pr) => {
            // debug_assert!(self.is_valid()) inside insert_speed is the "sorted" clause
            if exact {
                cx.fail(
                    format!("C13|panic|{}{z}", pr.class()),
                    format!("PathTpc::extend unwound: {} at {}:{}", pr.msg, pr.file, pr.line),
                );
            } else {
                cx.label("extend_panicked");
            }
            return;
        }
        Ok(Err(e)) => {
            cx.fail(format!("{id}|reject|valid-route-rejected"), format!("extend returned Err on a valid contiguous route: {e}"));
            return;
        }
        Ok(Ok(p)) => p,
    };
    let b = bases(case);
    let end = *b.last().unwrap();
    let sp: Vec<(f64, f64)> = path
        .speed_points()
        .iter()
        .map(|p| (p.offset.value, p.speed_limit.value))
        .collect();
    // breakpoints
    let mut bps: Vec<f64> = b.clone();
    for (j, l) in case.links.iter().enumerate() {
        for set in &l.sets {
            for (a, bb, _) in &set.limits {
                bps.push(b[j] + a);
                bps.push(b[j] + bb);
                bps.push(b[j] + bb + case.tp.length);
            }
        }
    }
    for p in &sp {
        bps.push(p.0);
    }
    bps.retain(|x| x.is_finite() && *x >= 0.0 && *x <= end);
    bps.sort_by(|a, b| a.partial_cmp(b).unwrap());
    bps.dedup();
    let enforced = |x: f64| -> f64 {
        let mut v = f64::NAN;
        for p in &sp {
            if p.0 <= x {
                v = p.1.abs();
            }
        }
        v
    };
    cx.label_if(case.links.iter().any(|l| l.sets.iter().any(|s| s.limits.iter().any(|x| x.2 < 0.0))), "negative_restriction_speed");
    cx.label_if(case.train.is_some(), "train_parameters_derived_from_a_car_list");
    cx.label_if(case.train.as_ref().map(|t| t.cars.iter().any(|c| c.n == 0)).unwrap_or(false), "car_type_listed_with_zero_cars");
    let mut n_mid = 0;
    for w in bps.windows(2) {
        let m = 0.5 * (w[0] + w[1]);
        if !(m > w[0] && m < w[1]) {
            continue;
        }
        n_mid += 1;
        let e = enforced(m);
        let p = posted(case, &b, m);
        if exact {
            if e < p {
                cx.fail(
                    format!("C13|neq|enforced<posted{z}"),
                    format!("at x={m}: enforced {e} < tightest posted {p}; profile {sp:?}"),
                );
            } else if e > p || e.is_nan() {
                cx.fail(
                    format!("C13|neq|enforced>posted{z}"),
                    format!("at x={m}: enforced {e} > tightest posted {p}; profile {sp:?}"),
                );
            }
        } else {
            if e > case.tp.speed_max || e.is_nan() {
                cx.fail(
                    "C02|bound|enforced>speed_max",
                    format!("at x={m}: enforced {e} > speed_max {}; profile {sp:?}", case.tp.speed_max),
                );
            } else if e > p {
                cx.fail(
                    "C02|bound|enforced>posted",
                    format!("at x={m}: enforced {e} > posted {p}; profile {sp:?}"),
                );
            }
        }
    }
    cx.count("midpoints_checked", n_mid);
    if exact {
        if sp.windows(2).any(|w| w[0].0 > w[1].0) {
            cx.fail(format!("C13|canon|unsorted{z}"), format!("profile offsets not sorted: {sp:?}"));
        }
        if sp.windows(3).any(|w| w[0].0 == w[2].0) {
            cx.fail(format!("C13|canon|triple-offset{z}"), format!("an offset repeats three times: {sp:?}"));
        }
        if sp.windows(2).any(|w| w[0].1 == w[1].1) {
            cx.fail(format!("C13|canon|equal-neighbours{z}"), format!("two consecutive points carry the same speed: {sp:?}"));
        }
        if sp.first().map(|p| p.0) != Some(0.0) {
            cx.fail("C13|canon|first-offset", format!("profile does not start at the path origin: {sp:?}"));
        }
        if nested {
            cx.nontrivial();
        }
    } else {
        // also the one-shot build must satisfy the bound (statement: "at once or extended")
        if case.partition.len() > 1 {
            if let Ok(Ok(p1)) = catch(|| build_path(case, &[case.links.len()])) {
                let sp1: Vec<(f64, f64)> =
                    p1.speed_points().iter().map(|p| (p.offset.value, p.speed_limit.value)).collect();
                for w in bps.windows(2) {
                    let m = 0.5 * (w[0] + w[1]);
                    let mut e = f64::NAN;
                    for p in &sp1 {
                        if p.0 <= m {
                            e = p.1.abs();
                        }
                    }
                    if e > posted(case, &b, m) || e.is_nan() {
                        cx.fail(
                            "C02|bound|enforced>posted:one-shot",
                            format!("one-shot build at x={m}: enforced {e} > posted; profile {sp1:?}"),
                        );
                    }
                }
            }
        }
        if overlap {
            cx.nontrivial();
        }
    }
}

pub struct C02;
impl C02 {
    fn gen(g: &mut Gen, tier: Tier) -> SpeedCase {
        gen_speed_case(g, tier)
    }
    fn check(c: &SpeedCase, cx: &mut Ctx) {
        check_speed(c, cx, "C02", false)
    }
}
impl Property for C02 {
    fn id(&self) -> &'static str {
        "C02"
    }
    fn cases(&self, tier: Tier) -> usize {
        match tier {
            Tier::Quick => 100000,
            Tier::Thorough => 600000,
        }
    }
    crate::typed_property!(C02, SpeedCase);
    fn rule(&self) -> String {
        "chain of 1-6 (thorough 1-8) links, each with 1-7 restrictions on a tenth-of-length grid (nested/overlapping/abutting/same-bound/zero-length), head- and tail-end sets, parameter gates, single set or per-type map, random composition into extend calls; oracle = pointwise minimum of all covering restrictions at every breakpoint midpoint. Non-trivial: >=2 applicable restrictions on one link overlap/nest, or a tail-end restriction reaches into the next link; distinct = distinct case JSON".into()
    }
    fn assumptions(&self) -> Vec<String> {
        vec![
            "a restriction covers the half-open interval [start, end(+train length for tail-end sets)); exact breakpoints are not compared, only interval midpoints".into(),
            "the enforced limit at x is the speed of the last stored profile point with offset <= x (how BrakingPoints consumes the profile)".into(),
            "restriction bounds lie inside their link; speeds 2-35 m/s; speed_max 5-40 m/s".into(),
        ]
    }
}

pub struct C13;
impl C13 {
    fn gen(g: &mut Gen, tier: Tier) -> SpeedCase {
        gen_speed_case(g, tier)
    }
    fn check(c: &SpeedCase, cx: &mut Ctx) {
        check_speed(c, cx, "C13", true)
    }
}
impl Property for C13 {
    fn id(&self) -> &'static str {
        "C13"
    }
    fn cases(&self, tier: Tier) -> usize {
        match tier {
            Tier::Quick => 100000,
            Tier::Thorough => 600000,
        }
    }
    crate::typed_property!(C13, SpeedCase);
    fn rule(&self) -> String {
        "same generator as C02; two-sided oracle enforced(m) == min(speed_max, covering restrictions) at every breakpoint midpoint (exact f64 equality: the code only copies speeds) plus canonical-form checks (sorted, no triple offset, no equal-speed neighbours, starts at 0). Non-trivial: some applicable restriction lies strictly inside another's (length-extended) extent; distinct = distinct case JSON".into()
    }
    fn assumptions(&self) -> Vec<String> {
        C02.assumptions()
    }
    fn panic_is_violation(&self) -> bool {
        true
    }
}
