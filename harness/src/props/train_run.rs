//! Shared runner for train simulations (set-speed and speed-limited) over chain networks, and
//! the per-step oracles used by C07 (resistance forces), C11 (cross-level agreement), C12
//! (kinematic bookkeeping), C14 (set-speed follows trace) and C03 (speed-limited safety).

use crate::engine::*;
use crate::gen::net_chain::*;
use crate::gen::train::*;
use crate::oracle::geometry::{self, Piecewise};
use crate::props::powertrain::{unit_vals, Vals};
use altrios_core::consist::ConsistState;
use altrios_core::track::{Link, LinkIdx, Location};
use altrios_core::train::{SetSpeedTrainSim, SpeedLimitTrainSim, SpeedTrace, TrainState};
use serde::{Deserialize, Serialize};
use std::collections::HashMap;

pub const G: f64 = 9.801_548_494_963_14;
/// a speed-limited run that sits at speed 0 without moving for this many steps will never
/// end: walk() has no exit for it
pub const STALL_STEPS: usize = 3000;
pub const STALL_MSG: &str = "HARNESS-STALL";
pub const SLOW_MSG: &str = "HARNESS-TOO-MANY-STEPS";
pub const MAX_STEPS: usize = 400_000;
pub const RHO_AIR: f64 = 1.225;

#[derive(Serialize, Deserialize, Clone, Debug)]
pub struct TrainCase {
    pub links: Vec<LinkSpec>,
    pub train: TrainSpec,
    /// 0 set-speed; 1 speed-limited, whole path then walk; 2 speed-limited, link-by-link
    /// extend_path interleaved with step(); 4 speed-limited through `walk_timed_path` with
    /// link k becoming available when a train at `timed_speed` would reach it (3 is used by
    /// C03 for timed paths that come out of the dispatcher)
    pub mode: u8,
    /// set-speed only: (time, speed)
    pub trace: Vec<(f64, f64)>,
    pub save_interval: Option<usize>,
    pub simulation_days: Option<i32>,
    /// set-speed only: leave the builder's initial speed at its default (0) although the
    /// trace starts moving; the trace is the authority from the first step on
    #[serde(default)]
    pub init_speed_zero: bool,
    /// speed-limited only: also let the code's own `walk()` (not the bounded restatement of
    /// its loop) run the case in a child process and compare outcome and final state
    #[serde(default)]
    pub also_real_walk: bool,
    /// speed-limited only: the scenario year handed to the builder (it must not influence the
    /// annualisation, which is by `simulation_days`)
    #[serde(default)]
    pub scenario_year: Option<i32>,
    /// build through the `..._and_parts` sibling constructors
    #[serde(default)]
    pub and_parts: bool,
    /// the train does not start with its tail at the beginning of the path but this much
    /// further along (initial offset = train length + this), 0 = the builder's default
    #[serde(default)]
    pub init_offset_extra: f64,
    /// set-speed only: the sim is assembled by hand from the builder's parts, with the grade
    /// and curve lookups re-created through the public `path_res::Strap::new` on the already
    /// extended path (the builder itself only ever calls it on an empty path)
    #[serde(default)]
    pub hand_assembled: bool,
    /// mode 4 only: pace (m/s) of the generated link times
    #[serde(default)]
    pub timed_speed: f64,
    /// initial offset given as an absolute position (takes precedence over
    /// `init_offset_extra`): used where the start must be an exactly representable number
    #[serde(default)]
    pub init_offset_abs: Option<f64>,
    /// speed-limited only: friction brake build-up (`ramp_up_time` s, `ramp_up_coeff`) set on
    /// the sim's public `fric_brake` after construction; the builder itself gives every train
    /// an instant brake (0 s), the type's own default is 60 s x 0.5
    #[serde(default)]
    pub brake_ramp_up: Option<(f64, f64)>,
}

pub struct TrainRun {
    pub states: Vec<TrainState>,
    pub con: Vec<ConsistState>,
    /// per loco: history of LocomotiveState as flattened values (loco.* only) — aligned with states
    pub loco_pwr_out: Vec<Vec<f64>>,
    pub loco_energy_out: Vec<Vec<f64>>,
    /// final component state per loco
    pub final_units: Vec<Vals>,
    pub result: Result<(), String>,
    pub panic: Option<PanicRec>,
    /// route as link indices (1-based)
    pub route: Vec<u32>,
    pub link_point_offsets: Vec<f64>,
    pub speed_points: Vec<(f64, f64)>,
    pub offset_end: f64,
    pub built: bool,
    pub build_err: String,
    // trip-level getters (speed-limited only)
    pub getters: HashMap<String, f64>,
    pub fric_force_max: f64,
    /// friction-brake force per saved step (speed-limited runs), and at the end of the run
    pub fric_force: Vec<f64>,
    /// the sim's braking points at the end of the run: (offset, speed_limit, speed_target)
    pub braking_points: Vec<(f64, f64, f64)>,
    pub final_state: Option<TrainState>,
    /// where the final stopping curve (braking points whose target is 0) begins, read from
    /// the sim's own braking points at the end of the run
    pub stop_curve_start: Option<f64>,
}

impl TrainRun {
    pub fn empty_pub() -> Self {
        Self::empty()
    }
    fn empty() -> Self {
        Self {
            states: vec![],
            con: vec![],
            loco_pwr_out: vec![],
            loco_energy_out: vec![],
            final_units: vec![],
            result: Ok(()),
            panic: None,
            route: vec![],
            link_point_offsets: vec![],
            speed_points: vec![],
            offset_end: 0.0,
            built: false,
            build_err: String::new(),
            getters: HashMap::new(),
            fric_force_max: 0.0,
            fric_force: vec![],
            braking_points: vec![],
            final_state: None,
            stop_curve_start: None,
        }
    }
}

pub fn location(id: &str, link: u32) -> Location {
    Location {
        location_id: id.into(),
        offset: altrios_core::uc::M * 0.0,
        link_idx: LinkIdx::new(link),
        is_front_end: false,
        grid_emissions_region: "r".into(),
        electricity_price_region: "r".into(),
        liquid_fuel_price_region: "r".into(),
    }
}

fn collect_consist(run: &mut TrainRun, con: &altrios_core::consist::Consist) {
    run.con = con.history.state_vec();
    run.loco_pwr_out = con.loco_vec.iter().map(|l| l.history.pwr_out.iter().map(|p| p.value).collect()).collect();
    run.loco_energy_out = con.loco_vec.iter().map(|l| l.history.energy_out.iter().map(|p| p.value).collect()).collect();
    run.final_units = con.loco_vec.iter().map(unit_vals).collect();
}

pub fn run_case(case: &TrainCase) -> TrainRun {
    let mut run = TrainRun::empty();
    let net: Vec<Link> = build_chain(&case.links);
    let n = case.links.len();
    run.route = (1..=n as u32).collect();
    let path: Vec<LinkIdx> = link_idxs(0..n);
    if case.mode == 0 {
        let built = (|| -> anyhow::Result<SetSpeedTrainSim> {
            let v0 = if case.init_speed_zero { None } else { case.trace.first().map(|p| p.1.max(0.0)) };
            let tsb = case.train.build_builder_init_abs(case.save_interval, None, v0, case.init_offset_extra, case.init_offset_abs)?;
            let trace = SpeedTrace::new(
                case.trace.iter().map(|x| x.0).collect(),
                case.trace.iter().map(|x| x.1).collect(),
                None,
            );
            if case.hand_assembled {
                let (sim0, _tp, path_tpc, train_res, _fb) = tsb.make_set_speed_train_sim_and_parts(&net, &path, trace.clone(), case.save_interval)?;
                let mut state = sim0.state;
                // a third of the hand-assembled sims start from a state that has been through
                // another run (a heavier train's): its stored weight is stale and every step
                // must derive it afresh from the static mass
                if case.trace.len() % 3 == 0 {
                    state.weight_static = state.mass_static * altrios_core::uc::ACC_GRAV * 1.7;
                }
                let mut v = serde_json::to_value(&train_res)?;
                let grade = altrios_core::train::kind::path_res::Strap::new(path_tpc.grades(), &state)?;
                let curve = altrios_core::train::kind::path_res::Strap::new(path_tpc.curves(), &state)?;
                if let Some(strap) = v.get_mut("Strap") {
                    strap["grade"] = serde_json::to_value(&grade)?;
                    strap["curve"] = serde_json::to_value(&curve)?;
                } else {
                    anyhow::bail!("builder did not return a strap resistance model");
                }
                let train_res: altrios_core::train::TrainRes = serde_json::from_value(v)?;
                Ok(SetSpeedTrainSim::new(sim0.loco_con, state, trace, train_res, path_tpc, case.save_interval))
            } else if case.and_parts {
                Ok(tsb.make_set_speed_train_sim_and_parts(&net, &path, trace, case.save_interval)?.0)
            } else {
                tsb.make_set_speed_train_sim(&net, &path, trace, case.save_interval)
            }
        })();
        let mut sim = match built {
            Ok(s) => s,
            Err(e) => {
                run.build_err = format!("{e:#}");
                return run;
            }
        };
        run.built = true;
        if case.train.consist_limits_off {
            sim.loco_con.set_assert_limits(false);
        }
        let r = catch(|| sim.walk());
        match r {
            Ok(Ok(())) => {}
            Ok(Err(e)) => run.result = Err(format!("{e:#}")),
            Err(p) => {
                run.result = Err(format!("panic: {}", p.msg));
                run.panic = Some(p);
            }
        }
        run.states = sim.history.state_vec();
        run.final_state = Some(sim.state);
        collect_consist(&mut run, &sim.loco_con);
        // the path profile is private in SetSpeedTrainSim: read it through serde
        if let Ok(v) = serde_json::to_value(&sim) {
            if let Some(lp) = v["path_tpc"]["link_points"].as_array() {
                run.link_point_offsets = lp.iter().map(|p| p["offset"].as_f64().unwrap_or(f64::NAN)).collect();
            }
        }
        run.offset_end = *run.link_point_offsets.last().unwrap_or(&0.0);
    } else {
        let built = (|| -> anyhow::Result<SpeedLimitTrainSim> {
            let tsb = case.train.build_builder_init_at(case.save_interval, Some(("A", "B")), None, case.init_offset_extra)?;
            let mut lm: HashMap<String, Vec<Location>> = HashMap::new();
            lm.insert("A".into(), vec![location("A", 1)]);
            lm.insert("B".into(), vec![location("B", n as u32)]);
            if case.and_parts {
                Ok(tsb.make_speed_limit_train_sim_and_parts(&lm, case.save_interval, case.simulation_days, case.scenario_year)?.0)
            } else {
                tsb.make_speed_limit_train_sim(&lm, case.save_interval, case.simulation_days, case.scenario_year)
            }
        })();
        let mut sim = match built {
            Ok(s) => s,
            Err(e) => {
                run.build_err = format!("{e:#}");
                return run;
            }
        };
        run.built = true;
        if case.train.consist_limits_off {
            sim.loco_con.set_assert_limits(false);
        }
        if let Some((t, c)) = case.brake_ramp_up {
            sim.fric_brake.ramp_up_time = altrios_core::uc::S * t;
            sim.fric_brake.ramp_up_coeff = altrios_core::uc::R * c;
        }
        run.fric_force_max = sim.fric_brake.force_max.value;
        let mut started = false;
        let r = catch(|| slts_schedule(&mut sim, case, &net, &path, false, &mut started));
        match r {
            Ok(Ok(())) => {}
            Ok(Err(e)) => run.result = Err(format!("{e:#}")),
            Err(p) => {
                run.result = Err(format!("panic: {}", p.msg));
                run.panic = Some(p);
            }
        }
        run.states = sim.history.state_vec();
        run.fric_force = sim.fric_brake.history.force.iter().map(|f| f.value).collect();
        run.fric_force.push(sim.fric_brake.state.force.value);
        run.final_state = Some(sim.state);
        run.stop_curve_start = stop_curve_start(&sim);
        run.braking_points = braking_points_of(&sim);
        if std::env::var("VERIF_DUMP").is_ok() {
            let n = run.states.len();
            let from: usize = std::env::var("VERIF_DUMP_FROM").ok().and_then(|s| s.parse().ok()).unwrap_or(n.saturating_sub(8));
            for s in run.states.iter().skip(from).take(14) {
                eprintln!("DUMP i={} t={} x={} v={} lim={} tgt={} pwr={} res_net={} grade_f={} fric={}", s.i, s.time.value, s.offset.value, s.speed.value, s.speed_limit.value, s.speed_target.value, s.pwr_whl_out.value, s.res_net().value, s.grade_front.value, sim.fric_brake.state.force.value);
            }
            eprintln!("DUMP con pwr_out_max={} force_max={:?} bp={}", sim.loco_con.state.pwr_out_max.value, sim.loco_con.force_max().map(|f| f.value), serde_json::to_string(&sim.braking_points).unwrap_or_default().chars().take(6000).collect::<String>());
        }
        collect_consist(&mut run, &sim.loco_con);
        run.link_point_offsets = sim.path_tpc.link_points().iter().map(|p| p.offset.value).collect();
        run.speed_points = sim.path_tpc.speed_points().iter().map(|p| (p.offset.value, p.speed_limit.value)).collect();
        run.offset_end = sim.offset_end().value;
        for ann in [false, true] {
            let a = if ann { "ann" } else { "raw" };
            run.getters.insert(format!("energy_fuel_{a}"), sim.get_energy_fuel(ann).value);
            run.getters.insert(format!("net_energy_res_{a}"), sim.get_net_energy_res(ann).value);
            run.getters.insert(format!("km_{a}"), sim.get_kilometers(ann));
            run.getters.insert(format!("mgkm_{a}"), sim.get_megagram_kilometers(ann));
            run.getters.insert(format!("res_km_{a}"), sim.get_res_kilometers(ann));
            run.getters.insert(format!("non_res_km_{a}"), sim.get_non_res_kilometers(ann));
            run.getters.insert(format!("factor_{a}"), sim.get_scaling_factor(ann));
        }
    }
    run
}

/// Drive a speed-limited sim through the case's path schedule.  `real_walk`: the final phase
/// calls the code's own `walk()` (unbounded loop) instead of the bounded restatement — used
/// only by the termination probe, in a child process.
pub fn slts_schedule(
    sim: &mut SpeedLimitTrainSim,
    case: &TrainCase,
    net: &[Link],
    path: &[LinkIdx],
    real_walk: bool,
    started: &mut bool,
) -> anyhow::Result<()> {
    let n = path.len();
    if case.mode == 4 {
        let mut t = case.train.init_time;
        let mut tp = vec![];
        for (k, l) in case.links.iter().enumerate() {
            tp.push(altrios_core::train::LinkIdxTime::new(path[k], altrios_core::uc::S * t));
            t += (l.length / case.timed_speed.max(1.0)).round();
        }
        *started = true;
        return sim.walk_timed_path(net, &tp);
    }
    if case.mode == 1 {
        sim.extend_path(net, path)?;
        *started = true;
        if real_walk {
            return sim.walk();
        }
        // walk() == save_state + walk_internal; the loop is re-stated (same condition) only
        // to be able to bound it
        sim.walk_save_first();
        sim.walk_rest()
    } else {
        // link by link: extend by one link, step until the front is within 2 km of the end of
        // the known path or the train has come to rest waiting for more path, extend again;
        // finally walk to the end
        sim.extend_path(net, &path[..1])?;
        *started = true;
        sim.walk_save_first();
        for k in 1..n {
            let mut guard = 0;
            let mut at_rest = 0usize;
            while sim.state.offset.value < sim.offset_end().value - 2000.0 && guard < MAX_STEPS && at_rest < 30 {
                let before = sim.state.offset.value;
                sim.step()?;
                guard += 1;
                at_rest = if sim.state.offset.value == before && sim.state.speed.value == 0.0 { at_rest + 1 } else { 0 };
            }
            sim.extend_path(net, &path[k..k + 1])?;
        }
        if real_walk {
            return sim.walk();
        }
        sim.walk_rest()
    }
}

/// child-process entry: `vcheck probe-walk <casefile>` — does the code's own walk() return?
pub fn probe_walk_main(casefile: &str) -> i32 {
    let txt = std::fs::read_to_string(casefile).expect("read case");
    let case: TrainCase = serde_json::from_str(&txt).expect("parse case");
    let net: Vec<Link> = build_chain(&case.links);
    let n = case.links.len();
    let path: Vec<LinkIdx> = link_idxs(0..n);
    let tsb = case.train.build_builder_init_at(None, Some(("A", "B")), None, case.init_offset_extra).expect("builder");
    let mut lm: HashMap<String, Vec<Location>> = HashMap::new();
    lm.insert("A".into(), vec![location("A", 1)]);
    lm.insert("B".into(), vec![location("B", n as u32)]);
    // no history: memory stays flat, only termination is observed
    let mut sim = tsb.make_speed_limit_train_sim(&lm, None, None, None).expect("sim");
    if let Some((t, c)) = case.brake_ramp_up {
        sim.fric_brake.ramp_up_time = altrios_core::uc::S * t;
        sim.fric_brake.ramp_up_coeff = altrios_core::uc::R * c;
    }
    let mut started = false;
    crate::engine::install_panic_hook();
    let r = catch(|| slts_schedule(&mut sim, &case, &net, &path, true, &mut started));
    // the final state, bit for bit, so that the caller can compare it with its own run
    let fin = format!("i={} offset={:016x} speed={:016x} time={:016x}", sim.state.i, sim.state.offset.value.to_bits(), sim.state.speed.value.to_bits(), sim.state.time.value.to_bits());
    match r {
        Ok(Ok(())) => println!("RETURNED ok {fin}"),
        Ok(Err(e)) => println!("RETURNED err {fin} {}", format!("{e:#}").replace('\n', " ")),
        Err(p) => println!("RETURNED panic {fin} {}", p.msg.replace('\n', " ")),
    }
    0
}

/// the same summary for a run made in this process
pub fn final_summary(state: &TrainState) -> String {
    format!("i={} offset={:016x} speed={:016x} time={:016x}", state.i, state.offset.value.to_bits(), state.speed.value.to_bits(), state.time.value.to_bits())
}

/// Ask a child process whether the real `walk()` returns for this case (None = it did not
/// within `secs`, or the child died).
pub fn probe_real_walk(case: &TrainCase, secs: u64) -> Option<String> {
    let dir = std::path::Path::new(crate::engine::run::VERIF_ROOT).join("work").join("probe");
    let _ = std::fs::create_dir_all(&dir);
    let txt = serde_json::to_string(case).ok()?;
    let f = dir.join(format!("case-{}-{:016x}.json", std::process::id(), fnv64(&txt)));
    std::fs::write(&f, &txt).ok()?;
    let mut child = std::process::Command::new(crate::engine::run::self_exe())
        .args(["probe-walk", f.to_str()?])
        .stdout(std::process::Stdio::piped())
        .stderr(std::process::Stdio::null())
        .spawn()
        .ok()?;
    let t0 = std::time::Instant::now();
    let out = loop {
        match child.try_wait() {
            Ok(Some(_)) => {
                let mut s = String::new();
                use std::io::Read;
                if let Some(mut o) = child.stdout.take() {
                    let _ = o.read_to_string(&mut s);
                }
                break if s.contains("RETURNED") { Some(s.trim().to_string()) } else { None };
            }
            Ok(None) => {
                if t0.elapsed().as_secs() >= secs {
                    let _ = child.kill();
                    let _ = child.wait();
                    break None;
                }
                std::thread::sleep(std::time::Duration::from_millis(10));
            }
            Err(_) => break None,
        }
    };
    let _ = std::fs::remove_file(&f);
    out
}

/// start of the stopping curve of a speed-limited sim (None when there are no braking points)
pub fn stop_curve_start(sim: &SpeedLimitTrainSim) -> Option<f64> {
    let v = serde_json::to_value(&sim.braking_points).ok()?;
    let pts = v.get("points")?.as_array()?;
    pts.iter()
        .filter(|p| p["speed_target"].as_f64() == Some(0.0))
        .filter_map(|p| p["offset"].as_f64())
        .fold(None, |m: Option<f64>, x| Some(m.map_or(x, |y| y.min(x))))
}

pub fn braking_points_of(sim: &SpeedLimitTrainSim) -> Vec<(f64, f64, f64)> {
    let Ok(v) = serde_json::to_value(&sim.braking_points) else { return vec![] };
    v.get("points")
        .and_then(|p| p.as_array())
        .map(|pts| pts.iter().filter_map(|p| Some((p["offset"].as_f64()?, p["speed_limit"].as_f64()?, p["speed_target"].as_f64()?))).collect())
        .unwrap_or_default()
}

/// Second root-cause discriminator (trains whose friction brake needs time to build up): the
/// controller must aim for the lowest target among the braking points between the train and
/// the end of its brake look-ahead `offset + speed x ramp_up_time x ramp_up_coeff` — every one
/// of them, not just the nearest or the farthest (targets are not monotone along the path:
/// a short slow section ends inside the window and the point after it carries the track
/// speed again).  Only for runs whose braking points do not change during the run (whole
/// path, then walk), so that the points read back afterwards are those every step used.
/// Returns (steps compared, first deviation).
pub fn lookahead_deviation(case: &TrainCase, run: &TrainRun) -> (usize, Option<String>) {
    let Some((t, c)) = case.brake_ramp_up else { return (0, None) };
    if case.mode != 1 || run.braking_points.is_empty() || run.states.len() < 2 {
        return (0, None);
    }
    let adj = t * c;
    let pts = &run.braking_points;
    let mut checked = 0usize;
    // the point the train is at is located as the code locates it (a cursor that starts at
    // the last point and only moves towards the first: where a curve planted inside a slower
    // zone makes the offsets non-monotone, "the first point at or behind the train" would be
    // another one); what is under test is the minimum over the window
    let mut idx_curr = pts.len() - 1;
    for k in 1..run.states.len() {
        let (x, v) = (run.states[k - 1].offset.value, run.states[k - 1].speed.value);
        if pts[0].0 <= x {
            idx_curr = 0;
        } else {
            while idx_curr >= 1 && pts[idx_curr - 1].0 <= x {
                idx_curr -= 1;
            }
        }
        let far = x + v * adj;
        let mut want = pts[idx_curr].2;
        let mut idx = idx_curr;
        let mut lowest_at = idx_curr;
        while idx >= 1 && pts[idx - 1].0 <= far {
            if pts[idx - 1].2 < want {
                want = pts[idx - 1].2;
                lowest_at = idx - 1;
            }
            idx -= 1;
        }
        let got = run.states[k].speed_target.value;
        checked += 1;
        if (got - want).abs() > 1e-9 * want.abs().max(1.0) {
            return (checked, Some(format!("step {k}: train at {x} m, {v} m/s, look-ahead to {far} m: target {got} m/s, lowest target of the braking points in the window {want} m/s (point at {} m)", pts[lowest_at].0)));
        }
    }
    (checked, None)
}

/// Root-cause discriminator for overspeed failures: is the braking curve the sim laid out
/// consistent with what it is documented to be built from?  For every pair of consecutive
/// curve points that is one backward step of 1 s (offset relation holds), the speed gained
/// over the step must equal (maximum friction-brake force + train resistance at the point's
/// position and speed) / compound mass, with the resistance taken from the reference model
/// of C07 (elevation / curvature walked over the route's own points, train occupying
/// [x - L, x]).  Returns (pairs checked, description of the first deviating pair).
pub fn braking_curve_deviation(rc: &RunCtx) -> (usize, Option<String>) {
    let t = &rc.case.train;
    let length = t.length();
    let w = G * t.mass_static();
    let m_c = t.mass_static() + t.mass_rot();
    let f = rc.run.fric_force_max;
    let mut checked = 0usize;
    let mut first = None;
    for p in rc.run.braking_points.windows(2) {
        let ((x0, v0, _), (x1, v1, _)) = (p[0], p[1]);
        let dv = v1 - v0;
        if !(dv > 0.0) || !(x1 < x0) {
            continue;
        }
        // a normal curve step: x1 = x0 - dt (v0 + dv / 2) with dt = 1 s
        let dt = (x0 - x1) / (v0 + 0.5 * dv);
        if (dt - 1.0).abs() > 1e-9 {
            continue;
        }
        let xb = x0 - length;
        if xb < 0.0 || x0 > rc.run.offset_end + 1e-9 {
            continue;
        }
        let res_code = dv * m_c / dt - f;
        let res_ref = t.rolling_ratio() * w
            + t.bearing_force()
            + t.davis_b() * v0 * w
            + t.cd_area() * RHO_AIR * v0 * v0
            + w * (rc.elev.eval(x0) - rc.elev.eval(xb)) / length
            + w * (rc.curve.eval(x0) - rc.curve.eval(xb)) / length;
        checked += 1;
        let tol = 1e-6 * (f.abs() + 0.03 * w) + 1e-2;
        if (res_code - res_ref).abs() > tol && first.is_none() {
            first = Some(format!("curve point at {x0} m, {v0} m/s: step gains {dv} m/s = brake {f} N + resistance {res_code} N over compound mass {m_c} kg, reference resistance {res_ref} N"));
        }
    }
    (checked, first)
}

/// `walk()` = save_state + walk_internal; both are needed separately for the link-by-link
/// schedule, and `save_state`/`walk_internal` are private: emulate with the public pieces.
trait WalkPieces {
    fn walk_save_first(&mut self);
    fn walk_rest(&mut self) -> anyhow::Result<()>;
}
impl WalkPieces for SpeedLimitTrainSim {
    fn walk_save_first(&mut self) {
        // walk() on a train that is already at the end of its (empty-motion) loop condition
        // would step; instead push the initial state exactly as save_state does
        if let Some(iv) = self.get_save_interval() {
            if self.state.i % iv == 0 {
                self.history.push(self.state);
                use altrios_core::consist::LocoTrait;
                self.loco_con.save_state();
                self.fric_brake.save_state();
            }
        }
    }
    fn walk_rest(&mut self) -> anyhow::Result<()> {
        // identical loop condition to walk_internal
        let ft1000 = 1000.0 * 0.3048;
        let mut stalled = 0usize;
        while self.state.offset.value < self.offset_end().value - ft1000
            || (self.state.offset.value < self.offset_end().value && self.state.speed.value != 0.0)
        {
            let before = self.state.offset.value;
            self.step()?;
            if self.state.offset.value == before && self.state.speed.value == 0.0 {
                stalled += 1;
            } else {
                stalled = 0;
            }
            if stalled >= STALL_STEPS {
                anyhow::bail!("{STALL_MSG}: {} consecutive steps at speed 0 without progress at offset {} (path end {})", stalled, before, self.offset_end().value);
            }
            if self.state.i > MAX_STEPS {
                anyhow::bail!("{SLOW_MSG}");
            }
        }
        Ok(())
    }
}

// ---------------------------------------------------------------------------------------
// generators

fn r(x: f64, d: i32) -> f64 {
    Gen::round(x, d)
}

/// chain whose total length comfortably contains the train
pub fn gen_links_for(g: &mut Gen, tp: &TrainParamSpec, o: &ChainOpts, min_total: f64, first_min: f64) -> Vec<LinkSpec> {
    let mut links = gen_chain(g, tp, o);
    if links[0].length < first_min {
        // regenerate the first link with a long length: scale offsets
        let k = (first_min / links[0].length).ceil();
        scale_link(&mut links[0], k);
        // keep elevation continuity with the following link
        let mut e = links[0].elevs.last().unwrap().1;
        for l in links.iter_mut().skip(1) {
            let d = e - l.elevs[0].1;
            for p in l.elevs.iter_mut() {
                p.1 = r(p.1 + d, 3);
            }
            e = l.elevs.last().unwrap().1;
        }
    }
    let mut total: f64 = links.iter().map(|l| l.length).sum();
    let mut e = links.last().unwrap().elevs.last().unwrap().1;
    while total < min_total && links.len() < 40 {
        // short links while there is room for many, long ones once the cap gets close
        let min_len = if links.len() < 30 { o.min_len } else { 1000.0f64.max((min_total - total) / 8.0) };
        let l = gen_link(g, tp, e, &ChainOpts { min_len, max_len: o.max_len.max(min_len * 4.0), ..*o });
        e = l.elevs.last().unwrap().1;
        total += l.length;
        links.push(l);
    }
    links
}

fn scale_link(l: &mut LinkSpec, k: f64) {
    let e0 = l.elevs[0].1;
    l.length *= k;
    for p in l.elevs.iter_mut() {
        p.0 *= k;
        // keep grades: scale elevation differences too
        p.1 = r(e0 + (p.1 - e0) * k, 3);
    }
    for p in l.headings.iter_mut() {
        p.0 *= k;
    }
    for c in l.cats.iter_mut() {
        c.0 *= k;
        c.1 *= k;
    }
    for s in l.sets.iter_mut() {
        for lim in s.limits.iter_mut() {
            lim.0 *= k;
            lim.1 *= k;
        }
    }
}

pub fn gen_trace(g: &mut Gen, max_dist: f64, vmax: f64, t0: f64, max_steps: usize) -> Vec<(f64, f64)> {
    let n = g.usize(3, max_steps);
    let mut t = t0;
    let mut v: f64 = if g.bool(0.5) { r(g.f64(1.0, vmax * 0.7), 2) } else { 0.0 };
    let mut dist = 0.0;
    let mut out = vec![(r(t, 1), v)];
    let mut seg_left = 0usize;
    let mut acc = 0.0;
    let fixed_dt = if g.bool(0.3) { Some(1.0) } else { None };
    while out.len() < n {
        if seg_left == 0 {
            seg_left = g.usize(1, 30);
            acc = match g.weighted(&[4, 3, 3, 1]) {
                0 => g.f64(0.01, 0.12),
                1 => 0.0,
                2 => -g.f64(0.02, 0.3),
                _ => -5.0, // stop quickly
            };
        }
        seg_left -= 1;
        let dt = fixed_dt.unwrap_or_else(|| r(g.f64(0.2, 5.0), 1));
        let mut v_new = r((v + acc * dt).clamp(0.0, vmax), 2);
        let d = 0.5 * (v + v_new) * dt;
        if dist + d > max_dist {
            // must stay inside the path: stand still from here on
            v_new = 0.0;
            let d0 = 0.5 * v * dt;
            if dist + d0 > max_dist {
                break;
            }
            dist += d0;
        } else {
            dist += d;
        }
        t += dt;
        v = v_new;
        out.push((r(t, 1), v));
    }
    out
}

pub fn gen_set_speed_case(g: &mut Gen, tier: Tier, allow_dummy: bool) -> TrainCase {
    let dense = g.bool(0.3);
    let train = gen_train(
        g,
        &TrainOpts { allow_dummy, max_cars: if dense { 40 } else { 120 }, ..Default::default() },
    );
    let tp = train.params();
    let max_steps = if tier == Tier::Thorough { 400 } else { 250 };
    if dense {
        // many very short links under a fast train: several boundaries per step
        let o = ChainOpts { max_links: 6, min_len: 50.0, max_len: 130.0, len_weights: [1, 0, 0], max_restr: 2, ..Default::default() };
        let mut links = gen_chain(g, &tp, &o);
        let mut e = links.last().unwrap().elevs.last().unwrap().1;
        let mut total: f64 = links.iter().map(|l| l.length).sum();
        let want = tp.length + g.grid(1500.0, 4000.0, 5);
        while total < want && links.len() < 120 {
            let l = gen_link(g, &tp, e, &o);
            e = l.elevs.last().unwrap().1;
            total += l.length;
            links.push(l);
        }
        // fast cruise with mild speed changes and long time steps
        let mut t = train.init_time;
        let mut v = r(g.f64(12.0, 30.0), 2);
        let mut dist = 0.0;
        let mut trace = vec![(r(t, 1), v)];
        let n = g.usize(5, max_steps.min(120));
        while trace.len() < n {
            let dt = r(g.f64(2.0, 5.0), 1);
            let v_new = r((v + g.f64(-0.15, 0.1) * dt).clamp(5.0, 32.0), 2);
            let d = 0.5 * (v + v_new) * dt;
            if dist + d > total - tp.length - 20.0 {
                break;
            }
            dist += d;
            t += dt;
            v = v_new;
            trace.push((r(t, 1), v));
        }
        return TrainCase { links, train, mode: 0, trace, save_interval: Some(1), simulation_days: None, init_speed_zero: false, also_real_walk: false, scenario_year: None, and_parts: false, init_offset_extra: 0.0, hand_assembled: false, init_offset_abs: None, timed_speed: 0.0, brake_ramp_up: None };
    }
    let o = ChainOpts { max_links: 6, len_weights: [6, 3, 1], ..Default::default() };
    let ahead = g.grid(400.0, 6000.0, 14);
    let links = gen_links_for(g, &tp, &o, tp.length + ahead, 0.0);
    let total: f64 = links.iter().map(|l| l.length).sum();
    // 5 %: the run ends with the front *exactly* on the end of the path (whole-number start,
    // steps of exactly representable length), then dwells there
    if g.bool(0.05) && total - tp.length > 60.0 {
        let n = (((total - tp.length - 2.0) / 4.0).floor() as usize).saturating_sub(g.usize(0, 3)).clamp(1, max_steps.saturating_sub(4).max(1));
        let start = total - (4.0 * n as f64 + 2.0);
        if start >= tp.length.ceil() && start.fract() == 0.0 {
            let mut trace = vec![(train.init_time, 4.0)];
            let mut t = train.init_time;
            for _ in 0..n {
                t += 1.0;
                trace.push((t, 4.0));
            }
            t += 1.0;
            trace.push((t, 0.0));
            for _ in 0..2 {
                t += 1.0;
                trace.push((t, 0.0));
            }
            return TrainCase { links, train, mode: 0, trace, save_interval: Some(1), simulation_days: None, init_speed_zero: false, also_real_walk: false, scenario_year: None, and_parts: false, init_offset_extra: 0.0, hand_assembled: false, init_offset_abs: Some(start), timed_speed: 0.0, brake_ramp_up: None };
        }
    }
    // 30 %: the train starts further along the path than with its tail at the beginning
    let room = total - tp.length - 120.0;
    let init_offset_extra = if g.bool(0.3) && room > 50.0 { r(g.f64(1.0, room * 0.7), 1) } else { 0.0 };
    // consistent inputs: the trace starts at the train's initial time and speed
    let trace = gen_trace(g, total - tp.length - init_offset_extra - 20.0, 30.0, train.init_time, max_steps);
    TrainCase { links, train, mode: 0, trace, save_interval: Some(1), simulation_days: None, init_speed_zero: false, also_real_walk: false, scenario_year: None, and_parts: false, init_offset_extra, hand_assembled: false, init_offset_abs: None, timed_speed: 0.0, brake_ramp_up: None }
}

// ---------------------------------------------------------------------------------------
// oracles over a run

pub struct RunCtx<'a> {
    pub case: &'a TrainCase,
    pub run: &'a TrainRun,
    pub elev: Piecewise,
    pub curve: Piecewise,
    pub tp: TrainParamSpec,
}

impl<'a> RunCtx<'a> {
    pub fn new(case: &'a TrainCase, run: &'a TrainRun) -> Self {
        let tp = case.train.params();
        Self { case, run, elev: geometry::elevation(&case.links), curve: geometry::curve(&case.links, &tp), tp }
    }
}

pub fn relclose(a: f64, b: f64, rel: f64, abs: f64) -> bool {
    if a == b {
        return true;
    }
    (a - b).abs() <= rel * a.abs().max(b.abs()) + abs
}

/// C07: forces of saved step k equal their definitions at (offset, speed) of step k-1
pub fn check_forces(rc: &RunCtx, cx: &mut Ctx) -> (bool, bool) {
    let t = &rc.case.train;
    let st = &rc.run.states;
    let length = t.length();
    let w = G * t.mass_static();
    let mut straddle = false;
    let mut crossed = false;
    let grade_bps = rc.elev.breakpoints();
    let bases = geometry::bases(&rc.case.links);
    for k in 1..st.len() {
        let (p, s) = (&st[k - 1], &st[k]);
        let x = p.offset.value;
        let v = p.speed.value;
        let xb = x - length;
        let tag = |n: &str| format!("C07|force|{n}");
        let ctxs = format!("saved step {k}: front {x} back {xb} speed {v} length {length}");
        if !relclose(s.mass_static.value, t.mass_static(), 1e-12, 0.0) {
            cx.fail(tag("mass_static"), format!("{ctxs}: mass_static {} vs cars+locomotives {}", s.mass_static.value, t.mass_static()));
        }
        if !relclose(s.weight_static.value, w, 1e-12, 0.0) {
            cx.fail(tag("weight_static"), format!("{ctxs}: weight {} vs g*mass_static {w}", s.weight_static.value));
        }
        let de = rc.elev.eval(x) - rc.elev.eval(xb);
        let want_grade = w * de / length;
        // absolute tolerance: elevation values ~1e3 m carry ~1e-13 m rounding, times W/L
        let abs_g = w / length * 1e-9;
        if !relclose(s.res_grade.value, want_grade, 1e-9, abs_g) {
            cx.fail(tag("res_grade"), format!("{ctxs}: res_grade {} vs W*(E(front)-E(back))/L {want_grade} (E(front) {}, E(back) {})", s.res_grade.value, rc.elev.eval(x), rc.elev.eval(xb)));
        }
        let dk = rc.curve.eval(x) - rc.curve.eval(xb);
        let want_curve = w * dk / length;
        if !relclose(s.res_curve.value, want_curve, 1e-9, abs_g) {
            cx.fail(tag("res_curve"), format!("{ctxs}: res_curve {} vs W*(K(front)-K(back))/L {want_curve}", s.res_curve.value));
        }
        if !relclose(s.res_rolling.value, t.rolling_ratio() * w, 1e-10, 1e-9) {
            cx.fail(tag("res_rolling"), format!("{ctxs}: {} vs ratio*W {}", s.res_rolling.value, t.rolling_ratio() * w));
        }
        if !relclose(s.res_davis_b.value, t.davis_b() * v * w, 1e-10, 1e-9) {
            cx.fail(tag("res_davis_b"), format!("{ctxs}: {} vs b*v*W {}", s.res_davis_b.value, t.davis_b() * v * w));
        }
        if !relclose(s.res_bearing.value, t.bearing_force(), 1e-10, 1e-9) {
            cx.fail(tag("res_bearing"), format!("{ctxs}: {} vs per-axle total {}", s.res_bearing.value, t.bearing_force()));
        }
        if !relclose(s.res_aero.value, t.cd_area() * RHO_AIR * v * v, 1e-10, 1e-9) {
            cx.fail(tag("res_aero"), format!("{ctxs}: {} vs CdA*rho*v^2 {}", s.res_aero.value, t.cd_area() * RHO_AIR * v * v));
        }
        if !relclose(s.elev_front.value, rc.elev.eval(x), 1e-12, 1e-9) {
            cx.fail(tag("elev_front"), format!("{ctxs}: elev_front {} vs E(front) {}", s.elev_front.value, rc.elev.eval(x)));
        }
        let (gl, gr) = rc.elev.slopes(x);
        let gf = s.grade_front.value;
        if !(relclose(gf, gl, 1e-9, 1e-12) || relclose(gf, gr, 1e-9, 1e-12)) {
            cx.fail(tag("grade_front"), format!("{ctxs}: grade_front {gf} vs track slope at front {gl}/{gr}"));
        }
        let (bl, br) = rc.elev.slopes(xb);
        let gb = s.grade_back.value;
        if !(relclose(gb, bl, 1e-9, 1e-12) || relclose(gb, br, 1e-9, 1e-12)) {
            cx.fail(tag("grade_back"), format!("{ctxs}: grade_back {gb} vs track slope at rear {bl}/{br} (slope at front {gl}/{gr})"));
        }
        if grade_bps.iter().any(|b| *b > xb && *b < x) {
            straddle = true;
        }
        let xn = s.offset.value;
        if bases.iter().any(|b| *b > x && *b <= xn) {
            crossed = true;
        }
    }
    cx.count("force_steps_checked", st.len().saturating_sub(1) as u64);
    (straddle, crossed)
}

/// C12: time / position / distance bookkeeping
pub fn check_kinematics(rc: &RunCtx, cx: &mut Ctx) -> usize {
    let st = &rc.run.states;
    let length = rc.case.train.length();
    let lpo = &rc.run.link_point_offsets;
    let mut max_cross = 0usize;
    let mut dist = 0.0f64;
    for k in 0..st.len() {
        let s = &st[k];
        let tag = |n: &str| format!("C12|kin|{n}");
        if k >= 1 {
            let p = &st[k - 1];
            let dt = s.dt.value;
            let dtime = s.time.value - p.time.value;
            if !(relclose(dtime, dt, 4.0 * f64::EPSILON, 4.0 * f64::EPSILON * s.time.value.abs())) {
                cx.fail(tag("time-step"), format!("saved step {k}: time {} -> {} but dt {dt}", p.time.value, s.time.value));
            }
            let want = dt * 0.5 * (p.speed.value + s.speed.value);
            let got = s.offset.value - p.offset.value;
            // the speed-limited sim moves the train with the computed speed change and then
            // snaps the speed to the target when `almost_eq` says so: |dv| < 1e-8 (v + target),
            // i.e. up to 2e-8 relative to the speed
            let tol = 1e-12 * s.offset.value.abs() + dt * 0.5 * (2.2e-8 * s.speed.value.abs() + 1.1e-8) + 1e-9;
            if !((got - want).abs() <= tol) {
                cx.fail(tag("offset-advance"), format!("saved step {k}: offset advanced {got} but dt*(v0+v1)/2 = {want} (v0 {} v1 {} dt {dt})", p.speed.value, s.speed.value));
            }
            dist += got.abs();
            if !relclose(s.total_dist.value, dist, 1e-9, 1e-6) {
                cx.fail(tag("total_dist"), format!("saved step {k}: total_dist {} vs sum of |advance| {dist}", s.total_dist.value));
            }
            let crossings = lpo.iter().filter(|b| **b > p.offset.value && **b <= s.offset.value).count();
            max_cross = max_cross.max(crossings);
        }
        let back_want = s.offset.value - length;
        if !relclose(s.offset_back.value, back_want, 1e-12, 1e-6) {
            let lag = if k >= 1 && relclose(s.offset_back.value, st[k - 1].offset.value - length, 1e-12, 1e-6) { ":lags-one-step" } else { "" };
            cx.fail(tag(&format!("offset_back{lag}")), format!("saved step {k}: offset_back {} vs offset - length = {back_want}", s.offset_back.value));
        }
        if !relclose(s.length.value, length, 1e-12, 0.0) {
            cx.fail(tag("length"), format!("saved step {k}: state.length {} vs train length {length}", s.length.value));
        }
        // front segment and in-segment offset identify the front position (initial state has
        // not been located yet: link_idx_front 0)
        if k >= 1 && lpo.len() >= 2 && s.offset.value > rc.run.offset_end {
            // the front has run past the end of its path (C03's finding, reported there): no
            // segment holds it
            cx.label("front_beyond_end_of_path_not_located");
        } else if k >= 1 && lpo.len() >= 2 {
            let li = s.link_idx_front as usize;
            match rc.run.route.iter().position(|r| *r as usize == li) {
                None => cx.fail(tag("link_idx_front-not-on-route"), format!("saved step {k}: link_idx_front {li}, route {:?}", rc.run.route)),
                Some(j) => {
                    let base = lpo[j];
                    let len = lpo[j + 1] - lpo[j];
                    let oil = s.offset_in_link.value;
                    if !relclose(base + oil, s.offset.value, 1e-12, 1e-6) {
                        cx.fail(tag("base+offset_in_link!=offset"), format!("saved step {k}: link {li} base {base} + in-link {oil} != offset {}", s.offset.value));
                    }
                    if !(oil >= -1e-6 && oil <= len + 1e-6) {
                        cx.fail(tag("offset_in_link-outside-segment"), format!("saved step {k}: in-link offset {oil} outside [0,{len}] of link {li} (offset {})", s.offset.value));
                    }
                }
            }
        }
    }
    cx.count("kin_steps_checked", st.len() as u64);
    max_cross
}

/// C11: power / energy agree across train, consist and locomotive levels
pub fn check_levels(rc: &RunCtx, cx: &mut Ctx) -> (bool, bool) {
    let st = &rc.run.states;
    let con = &rc.run.con;
    let tag = |n: &str| format!("C11|level|{n}");
    if con.len() != st.len() {
        cx.fail(tag("history-length"), format!("train history {} vs consist history {}", st.len(), con.len()));
        return (false, false);
    }
    let dummy = rc.case.train.dummy;
    let (mut pos, mut neg) = (false, false);
    for k in 1..st.len() {
        let (s, c) = (&st[k], &con[k]);
        let p = s.pwr_whl_out.value;
        pos |= p > 0.0;
        neg |= p < 0.0;
        if c.pwr_out_req.value != p {
            cx.fail(tag("train.pwr_whl_out!=consist.pwr_out_req"), format!("saved step {k}: {p} vs {}", c.pwr_out_req.value));
        }
        if !relclose(c.pwr_out.value, p, 1e-8, 1e-8) {
            cx.fail(tag("train.pwr_whl_out!=consist.pwr_out"), format!("saved step {k}: {p} vs {}", c.pwr_out.value));
        }
        let lsum: f64 = rc.run.loco_pwr_out.iter().map(|h| h.get(k).copied().unwrap_or(f64::NAN)).sum();
        let scale: f64 = rc.run.loco_pwr_out.iter().map(|h| h.get(k).copied().unwrap_or(0.0).abs()).sum::<f64>() + p.abs();
        if !dummy && !close(lsum, c.pwr_out.value, scale, 1e-9) {
            cx.fail(tag("consist.pwr_out!=sum(loco.pwr_out)"), format!("saved step {k}: {} vs {lsum}", c.pwr_out.value));
        }
        let escale = s.energy_whl_out_pos.value.abs() + s.energy_whl_out_neg.value.abs() + 1.0;
        for (name, a, b) in [
            ("energy_whl_out", s.energy_whl_out.value, c.energy_out.value),
            ("energy_whl_out_pos", s.energy_whl_out_pos.value, c.energy_out_pos.value),
            ("energy_whl_out_neg", s.energy_whl_out_neg.value, c.energy_out_neg.value),
        ] {
            if !close(a, b, escale, 1e-9) {
                cx.fail(tag(&format!("train.{name}!=consist")), format!("saved step {k}: train {a} vs consist {b}"));
            }
        }
        let esum: f64 = rc.run.loco_energy_out.iter().map(|h| h.get(k).copied().unwrap_or(f64::NAN)).sum();
        if !dummy && !close(esum, c.energy_out.value, escale, 1e-9) {
            cx.fail(tag("consist.energy_out!=sum(loco.energy_out)"), format!("saved step {k}: {} vs {esum}", c.energy_out.value));
        }
    }
    // totals at the end vs sums over components
    if let (Some(c), false) = (con.last(), dummy) {
        if st.len() >= 2 && rc.run.result.is_ok() {
            let fuel: f64 = rc.run.final_units.iter().map(|u| u.get("fc.energy_fuel").copied().unwrap_or(0.0)).sum();
            let res: f64 = rc.run.final_units.iter().map(|u| u.get("res.energy_out_chemical").copied().unwrap_or(0.0)).sum();
            if !close(c.energy_fuel.value, fuel, fuel.abs() + 1.0, 1e-9) {
                cx.fail(tag("consist.energy_fuel!=sum(fc.energy_fuel)"), format!("{} vs {fuel}", c.energy_fuel.value));
            }
            if !close(c.energy_res.value, res, res.abs() + c.energy_res.value.abs() + 1.0, 1e-9) {
                cx.fail(tag("consist.energy_res!=sum(res.energy_out_chemical)"), format!("{} vs {res}", c.energy_res.value));
            }
            let gt = &rc.run.getters;
            if !gt.is_empty() {
                let days = rc.case.simulation_days;
                let f = match days {
                    Some(d) => 365.25 / d as f64,
                    None => 365.25,
                };
                let fs = rc.run.final_state.as_ref().unwrap();
                let km = fs.total_dist.value / 1000.0;
                let mg = fs.mass_freight.value / 1000.0;
                // battery-equipped units: battery-electric and hybrid locomotives
                let n_res = rc.case.train.units.iter().filter(|u| u.is_bel()).count() as f64 + rc.case.train.hybrids as f64;
                let n_non = (rc.case.train.units.len() + rc.case.train.hybrids) as f64 - n_res;
                for (name, base) in [
                    ("energy_fuel", fuel),
                    ("net_energy_res", res),
                    ("km", km),
                    ("mgkm", mg * km),
                    ("res_km", km * n_res),
                    ("non_res_km", km * n_non),
                ] {
                    let raw = gt[&format!("{name}_raw")];
                    let ann = gt[&format!("{name}_ann")];
                    if !close(raw, base, base.abs() + 1.0, 1e-9) {
                        cx.fail(tag(&format!("trip.{name}!=total")), format!("{raw} vs {base}"));
                    }
                    if !close(ann, base * f, (base * f).abs() + 1.0, 1e-9) {
                        cx.fail(tag(&format!("trip.{name}:annualized!=total*365.25/days")), format!("{ann} vs {base} * {f}"));
                    }
                }
            }
        }
    }
    (pos, neg)
}
