//! C01 (energy ledger), C08 (second law / engine off), C09 (limits respected), C10 (consist
//! split) — one driver that steps a locomotive or consist exactly in the order
//! `LocomotiveSimulation::solve_step` / `ConsistSimulation::solve_step` do, with demands chosen
//! relative to the limits the unit has just published; four oracles over the recorded trace.

use crate::engine::*;
use crate::gen::powertrain::*;
use altrios_core::consist::locomotive::{Locomotive, PowertrainType};
use altrios_core::consist::{Consist, LocoTrait};
use altrios_core::uc;
use serde::{Deserialize, Serialize};
use std::collections::BTreeMap;

#[derive(Serialize, Deserialize, Clone, Debug)]
pub struct PtCase {
    pub units: Vec<UnitSpec>,
    pub consist: bool,
    pub pdct: u8,
    pub steps: Vec<StepSpec>,
    /// stand-alone units only: after a rejected request carry on with the *same* object (what
    /// calling `LocomotiveSimulation::step()` again after an `Err` does) instead of the copy
    /// taken before the attempt
    #[serde(default)]
    pub retry_on_same_object: bool,
    /// consists only (C08): default hybrid locomotives appended to the generated units
    #[serde(default)]
    pub hybrids: usize,
    /// consists only (C10): `set_assert_limits(false)` before the first step
    #[serde(default)]
    pub limits_off: bool,
    /// consists of >= 2 units only: before this step the last unit is taken out of the live
    /// consist (0 `drain_loco_vec`, 1 `set_loco_vec`, 2 the public field)
    #[serde(default)]
    pub drop_unit_before: Option<(usize, u8)>,
    /// mixed consists only: the consist is first created (`Consist::new`) from its
    /// fuel-burning units alone and then given the complete list (1 through the public field,
    /// 2 through `set_loco_vec`) — anything cached at construction is stale afterwards
    #[serde(default)]
    pub fuel_units_first: u8,
}

/// the consist of a case as the driver and the simulation-object differential both start from
pub fn case_consist(case: &PtCase) -> anyhow::Result<Consist> {
    let mut con: Consist = build_consist(&case.units, case.pdct, None)?;
    if case.hybrids > 0 {
        let mut v = con.loco_vec.clone();
        for h in 0..case.hybrids {
            v.push(hybrid_unit(case, h));
        }
        con = Consist::new(v, None, con.pdct.clone());
    }
    if case.fuel_units_first > 0 && case.units.iter().any(|u| u.is_bel()) && case.units.iter().any(|u| !u.is_bel()) {
        let full = con.loco_vec.clone();
        let fuel_only: Vec<Locomotive> = full.iter().zip(case.units.iter()).filter(|(_, u)| !u.is_bel()).map(|(l, _)| l.clone()).collect();
        let mut c2 = Consist::new(fuel_only, None, con.pdct.clone());
        if case.fuel_units_first == 1 {
            c2.loco_vec = full;
        } else {
            c2.set_loco_vec(full);
        }
        con = c2;
    }
    Ok(con)
}

pub fn gen_pt_case(g: &mut Gen, tier: Tier, force_consist: Option<bool>) -> PtCase {
    gen_pt_case_dt(g, tier, force_consist, 0.0)
}

/// `coarse_dt_p`: probability of ignoring the battery's SOC-window bound on the step size (steps
/// up to 10 s whatever the capacity: a step may then carry the SOC past the end of its window,
/// which the ledger clauses must survive; C09's window clause is only claimed under the bound)
pub fn gen_pt_case_dt(g: &mut Gen, tier: Tier, force_consist: Option<bool>, coarse_dt_p: f64) -> PtCase {
    let consist = force_consist.unwrap_or_else(|| g.bool(0.45));
    let units = if consist { gen_units(g, 8) } else { vec![gen_unit(g, None)] };
    let pdct = g.int(0, 1) as u8;
    let max_steps = if tier == Tier::Thorough { 80 } else { 40 };
    let dtm = if coarse_dt_p > 0.0 && g.bool(coarse_dt_p) { 10.0 } else { dt_max(&units) };
    let steps = gen_steps(g, max_steps, dtm, !consist);
    PtCase { units, consist, pdct, steps, retry_on_same_object: false, hybrids: 0, limits_off: false, drop_unit_before: None, fuel_units_first: 0 }
}

pub type Vals = BTreeMap<String, f64>;

fn flatten(prefix: &str, v: &serde_json::Value, out: &mut Vals) {
    if let Some(o) = v.as_object() {
        for (k, x) in o {
            let key = format!("{prefix}.{k}");
            if let Some(f) = x.as_f64() {
                out.insert(key, f);
            } else if let Some(b) = x.as_bool() {
                out.insert(key, if b { 1.0 } else { 0.0 });
            } else if x.is_null() {
                out.insert(key, f64::NAN);
            }
        }
    }
}

/// all state variables of a unit, flattened: fc.*, gen.*, edrv.*, res.*, loco.*
pub fn unit_vals(l: &Locomotive) -> Vals {
    let mut m = Vals::new();
    flatten("loco", &serde_json::to_value(l.state).unwrap(), &mut m);
    match &l.loco_type {
        PowertrainType::ConventionalLoco(c) => {
            flatten("fc", &serde_json::to_value(c.fc.state).unwrap(), &mut m);
            flatten("gen", &serde_json::to_value(c.gen.state).unwrap(), &mut m);
            flatten("edrv", &serde_json::to_value(c.edrv.state).unwrap(), &mut m);
        }
        PowertrainType::BatteryElectricLoco(b) => {
            flatten("res", &serde_json::to_value(b.res.state).unwrap(), &mut m);
            flatten("edrv", &serde_json::to_value(b.edrv.state).unwrap(), &mut m);
        }
        PowertrainType::HybridLoco(h) => {
            flatten("fc", &serde_json::to_value(h.fc.state).unwrap(), &mut m);
            flatten("gen", &serde_json::to_value(h.gen.state).unwrap(), &mut m);
            flatten("res", &serde_json::to_value(h.res.state).unwrap(), &mut m);
            flatten("edrv", &serde_json::to_value(h.edrv.state).unwrap(), &mut m);
        }
        PowertrainType::DummyLoco(_) => {}
    }
    m
}

#[derive(Clone, Debug)]
pub struct StepRec {
    pub dt: f64,
    pub engine_on: bool,
    pub kind: u8,
    pub frac: f64,
    pub request: f64,
    pub accepted: bool,
    pub err: String,
    /// per unit, after limits were published and before the demand is applied
    pub pre: Vec<Vals>,
    /// per unit, after the step was solved
    pub post: Vec<Vals>,
    pub con_pre: Vals,
    pub con_post: Vals,
}

pub struct PtTrace {
    pub steps: Vec<StepRec>,
    pub build_err: Option<String>,
    /// consist-level getters after the last accepted step
    pub con_energy_fuel: f64,
    pub con_net_energy_res: f64,
    /// per unit (and consist), the state after the last step of the history
    pub final_units: Vec<Vals>,
    pub final_con: Vals,
}

fn request_for(s: &StepSpec, lim_out: f64, lim_regen: f64, lim_brake: f64) -> f64 {
    match s.kind {
        0 => 0.0,
        1 => {
            if lim_out > 0.0 {
                lim_out * s.frac
            } else {
                0.0
            }
        }
        2 => -(lim_regen.max(0.0) * s.frac),
        3 => -(lim_brake.max(0.0) * s.frac),
        _ => s.frac,
    }
}

/// default hybrid locomotive number `h` of a case: the shipped one starts with a full battery
/// and cannot regenerate, so every other one starts half full
fn hybrid_unit(case: &PtCase, h: usize) -> Locomotive {
    let mut hel = Locomotive::default_hybrid_electric_loco();
    if (h + case.steps.len()) % 2 == 1 {
        if let Some(res) = hel.reversible_energy_storage_mut() {
            res.state.soc = uc::R * 0.5;
        }
    }
    hel
}

pub fn drive(case: &PtCase) -> PtTrace {
    let mut tr = PtTrace { steps: vec![], build_err: None, con_energy_fuel: 0.0, con_net_energy_res: 0.0, final_units: vec![], final_con: Vals::new() };
    // time on the trace the simulation objects would be given: every step's dt is the
    // difference of two trace times, so that `PowerTrace::dt(i)` reproduces it bit for bit
    let mut t_prev = 0.0f64;
    if case.consist {
        let mut con: Consist = match case_consist(case) {
            Ok(c) => c,
            Err(e) => {
                tr.build_err = Some(format!("{e:#}"));
                return tr;
            }
        };
        if case.limits_off {
            con.set_assert_limits(false);
        }
        for (k, s) in case.steps.iter().enumerate() {
            if let Some((at, via)) = case.drop_unit_before {
                if at == k && con.loco_vec.len() >= 2 {
                    let n = con.loco_vec.len();
                    match via {
                        0 => {
                            con.drain_loco_vec(n - 1, n);
                        }
                        1 => {
                            let mut v = con.loco_vec.clone();
                            v.pop();
                            con.set_loco_vec(v);
                        }
                        _ => {
                            con.loco_vec.pop();
                        }
                    }
                }
            }
            let t_new = t_prev + s.dt;
            let dt_used = t_new - t_prev;
            let dt = uc::S * dt_used;
            let mut rec = StepRec {
                dt: dt_used,
                engine_on: true,
                kind: s.kind,
                frac: s.frac,
                request: 0.0,
                accepted: false,
                err: String::new(),
                pre: vec![],
                post: vec![],
                con_pre: Vals::new(),
                con_post: Vals::new(),
            };
            let snapshot = con.clone();
            let mut attempt = || -> anyhow::Result<()> {
                con.set_pwr_aux(Some(true))?;
                con.set_cur_pwr_max_out(None, dt)?;
                rec.pre = con.loco_vec.iter().map(unit_vals).collect();
                flatten("con", &serde_json::to_value(con.state).unwrap(), &mut rec.con_pre);
                rec.request = request_for(
                    s,
                    con.state.pwr_out_max.value,
                    con.state.pwr_regen_max.value,
                    con.state.pwr_dyn_brake_max.value,
                );
                con.solve_energy_consumption(uc::W * rec.request, dt, Some(true))?;
                Ok(())
            };
            // with limit checking off a demand no split can meet (e.g. above the capability of
            // a battery-only consist) trips the split's own `assert_almost_eq_uom`: not an
            // accepted step, so not something the statement speaks about — taken as a rejection
            let r = if case.limits_off {
                match crate::engine::catch(&mut attempt) {
                    Ok(r) => r,
                    Err(p) => Err(anyhow::anyhow!("unwound with limit checking off: {}", p.msg.lines().map(|l| l.trim()).collect::<Vec<_>>().join(" "))),
                }
            } else {
                attempt()
            };
            match r {
                Ok(()) => {
                    rec.accepted = true;
                    rec.post = con.loco_vec.iter().map(unit_vals).collect();
                    flatten("con", &serde_json::to_value(con.state).unwrap(), &mut rec.con_post);
                    con.save_state();
                    con.step();
                    t_prev = t_new;
                    tr.con_energy_fuel = con.get_energy_fuel().value;
                    tr.con_net_energy_res = con.get_net_energy_res().value;
                    tr.steps.push(rec);
                }
                Err(e) => {
                    // a rejected request leaves the object in a documented-as-failed state:
                    // carry on from the copy taken before the attempt
                    rec.err = format!("{e:#}");
                    tr.steps.push(rec);
                    con = snapshot;
                }
            }
        }
        tr.final_units = con.loco_vec.iter().map(unit_vals).collect();
        flatten("con", &serde_json::to_value(con.state).unwrap(), &mut tr.final_con);
    } else {
        let mut loco = match build_unit(&case.units[0], None) {
            Ok(l) => l,
            Err(e) => {
                tr.build_err = Some(format!("{e:#}"));
                return tr;
            }
        };
        let edrv_rating = case.units[0].edrv().pwr_max;
        if case.limits_off {
            loco.assert_limits = false;
        }
        for s in &case.steps {
            let t_new = t_prev + s.dt;
            let dt_used = t_new - t_prev;
            let dt = uc::S * dt_used;
            let eo = Some(s.engine_on);
            let mut rec = StepRec {
                dt: dt_used,
                engine_on: s.engine_on,
                kind: s.kind,
                frac: s.frac,
                request: 0.0,
                accepted: false,
                err: String::new(),
                pre: vec![],
                post: vec![],
                con_pre: Vals::new(),
                con_post: Vals::new(),
            };
            let snapshot = loco.clone();
            let mut attempt = || -> anyhow::Result<()> {
                loco.set_pwr_aux(eo);
                loco.set_cur_pwr_max_out(None, dt)?;
                rec.pre = vec![unit_vals(&loco)];
                rec.request = request_for(s, loco.state.pwr_out_max.value, loco.state.pwr_regen_max.value, edrv_rating);
                if s.aux_off_after_publish {
                    // the limits stay as published; the unit's own checks must still keep the
                    // accepted step within them
                    loco.set_pwr_aux(Some(false));
                }
                loco.solve_energy_consumption(uc::W * rec.request, dt, eo)?;
                Ok(())
            };
            // limit checking off: a demand the unit cannot meet may trip an internal assertion —
            // not an accepted step (as for consists above)
            let r = if case.limits_off {
                match crate::engine::catch(&mut attempt) {
                    Ok(r) => r,
                    Err(p) => Err(anyhow::anyhow!("unwound with limit checking off: {}", p.msg.lines().map(|l| l.trim()).collect::<Vec<_>>().join(" "))),
                }
            } else {
                attempt()
            };
            match r {
                Ok(()) => {
                    rec.accepted = true;
                    rec.post = vec![unit_vals(&loco)];
                    loco.save_state();
                    loco.step();
                    t_prev = t_new;
                    tr.steps.push(rec);
                }
                Err(e) => {
                    rec.err = format!("{e:#}");
                    tr.steps.push(rec);
                    if !case.retry_on_same_object {
                        loco = snapshot;
                    }
                }
            }
        }
        tr.final_units = vec![unit_vals(&loco)];
    }
    tr
}

/// The histories above are produced by calling, in their documented order, what
/// `LocomotiveSimulation::solve_step` / `ConsistSimulation::solve_step` call.  Here the
/// accepted steps are handed to the simulation objects themselves as a power trace and
/// walked: the objects must end in the identical state, value for value.
pub fn sim_differential(case: &PtCase, tr: &PtTrace, cx: &mut Ctx) {
    use altrios_core::consist::consist_sim::ConsistSimulation;
    use altrios_core::consist::locomotive::loco_sim::{LocomotiveSimulation, PowerTrace};
    let acc: Vec<&StepRec> = tr.steps.iter().filter(|s| s.accepted).collect();
    if acc.is_empty() || (case.retry_on_same_object && tr.steps.iter().any(|s| !s.accepted)) || case.steps.iter().any(|s| s.aux_off_after_publish) || (case.limits_off && !case.consist) {
        return;
    }
    let mut time = vec![0.0f64];
    for s in &acc {
        let t = *time.last().unwrap() + s.dt;
        time.push(t);
    }
    let pwr: Vec<f64> = std::iter::once(0.0).chain(acc.iter().map(|s| s.request)).collect();
    let eo: Vec<Option<bool>> = std::iter::once(Some(true)).chain(acc.iter().map(|s| Some(s.engine_on))).collect();
    let trace = PowerTrace::new(time, pwr, eo);
    let borderline = acc.iter().any(|s| s.kind != 4 && s.frac >= 0.999 && s.request != 0.0);
    let (res, units, con): (anyhow::Result<()>, Vec<Vals>, Vals) = if case.consist {
        let Ok(c) = case_consist(case) else { return };
        let mut sim = ConsistSimulation::new(c, trace, None);
        let r = sim.walk();
        let mut cv = Vals::new();
        flatten("con", &serde_json::to_value(sim.loco_con.state).unwrap(), &mut cv);
        (r, sim.loco_con.loco_vec.iter().map(unit_vals).collect(), cv)
    } else {
        let Ok(l) = build_unit(&case.units[0], None) else { return };
        let mut sim = LocomotiveSimulation::new(l, trace, None);
        let r = sim.walk();
        (r, vec![unit_vals(&sim.loco_unit)], Vals::new())
    };
    cx.label("history_also_walked_by_the_simulation_object");
    if let Err(e) = res {
        // the simulation object makes one more test than the direct calls (delivered == trace
        // power); a request sitting on a limit may fall on the other side of it
        cx.label(if borderline { "simulation_object_rejects_a_step_on_a_limit" } else { "simulation_object_rejects_a_step" });
        if !borderline {
            cx.fail("C01|sim|simulation-object-rejects-a-history-its-own-calls-accept", format!("{} accepted steps; walk(): {}", acc.len(), format!("{e:#}").chars().take(300).collect::<String>()));
        }
        return;
    }
    for (u, (a, b)) in units.iter().zip(tr.final_units.iter()).enumerate() {
        for (k, x) in a {
            let y = b.get(k).copied().unwrap_or(f64::NAN);
            if !(*x == y || (x.is_nan() && y.is_nan())) {
                cx.fail("C01|sim|simulation-object-ends-in-a-different-state", format!("unit {u} {k}: walk() {x:e} vs direct calls {y:e} after {} steps", acc.len()));
                return;
            }
        }
    }
    for (k, x) in &con {
        let y = tr.final_con.get(k).copied().unwrap_or(f64::NAN);
        if !(*x == y || (x.is_nan() && y.is_nan())) {
            cx.fail("C01|sim|simulation-object-ends-in-a-different-state", format!("consist {k}: walk() {x:e} vs direct calls {y:e} after {} steps", acc.len()));
            return;
        }
    }
}

fn g(v: &Vals, k: &str) -> f64 {
    *v.get(k).unwrap_or(&f64::NAN)
}
fn has(v: &Vals, k: &str) -> bool {
    v.contains_key(k)
}

fn common_labels(case: &PtCase, tr: &PtTrace, cx: &mut Ctx) -> (usize, bool, bool, bool) {
    let acc: Vec<&StepRec> = tr.steps.iter().filter(|s| s.accepted).collect();
    let n_bel = case.units.iter().filter(|u| u.is_bel()).count();
    cx.label_if(case.consist, "consist");
    cx.label_if(!case.consist, "standalone_unit");
    cx.label_if(n_bel > 0, "has_bel");
    cx.label_if(n_bel < case.units.len(), "has_conv");
    cx.label_if(case.consist && case.pdct == 0, "res_greedy");
    cx.label_if(case.consist && case.pdct == 1, "proportional");
    cx.label_if(case.hybrids > 0, "consist_with_hybrid_locomotive");
    cx.label_if(case.fuel_units_first > 0 && n_bel > 0 && n_bel < case.units.len(), "consist_created_from_its_fuel_units_and_completed_afterwards");
    cx.label_if(case.limits_off && !case.consist, "standalone_unit_with_limit_checking_off");
    cx.label_if(tr.steps.iter().any(|s| s.accepted && case.steps.iter().any(|q| q.aux_off_after_publish)), "aux_switched_off_between_publication_and_demand");
    let traction = acc.iter().any(|s| s.request > 0.0);
    let braking = acc.iter().any(|s| s.request < 0.0);
    let regen = acc.iter().any(|s| s.post.iter().any(|u| has(u, "res.soc") && g(u, "edrv.pwr_mech_prop_out") < 0.0));
    cx.label_if(traction, "traction_step");
    cx.label_if(braking, "braking_step");
    cx.label_if(regen, "regen_step");
    cx.label_if(acc.iter().any(|s| !s.engine_on), "engine_off_step");
    cx.label_if(tr.steps.iter().any(|s| !s.accepted), "has_rejected_request");
    cx.label_if(case.retry_on_same_object && tr.steps.windows(2).any(|w| !w[0].accepted && w[1].accepted), "accepted_step_on_the_same_object_after_a_rejection");
    for r in tr.steps.iter().filter(|s| !s.accepted) {
        let cls = if r.kind == 4 { "abs".to_string() } else { format!("k{}@{}", r.kind, r.frac) };
        cx.label(&format!("reject:{cls}"));
        if std::env::var("VERIF_DEBUG_REJECT").is_ok() {
            let last = r.err.lines().last().unwrap_or("");
            cx.label(&format!("rejmsg:{cls}:{}", msg_class(last, 60)));
        }
    }
    cx.count("accepted_steps", acc.len() as u64);
    cx.count("steps", tr.steps.len() as u64);
    (acc.len(), traction, braking, regen)
}

fn rel(cx: &mut Ctx, sig: &str, name: &str, step: usize, unit: usize, lhs: f64, terms: &[f64]) {
    let rhs: f64 = terms.iter().sum();
    let scale: f64 = lhs.abs() + terms.iter().map(|t| t.abs()).sum::<f64>();
    if !close(lhs, rhs, scale, 1e-9) {
        cx.fail(
            format!("{sig}|{name}"),
            format!("step {step} unit {unit}: {name}: lhs {lhs:e} vs rhs {rhs:e} (terms {terms:?})"),
        );
    }
}

// ---------------------------------------------------------------------------------------
// C01

pub fn check_c01(case: &PtCase, cx: &mut Ctx) {
    let tr = drive(case);
    if let Some(e) = &tr.build_err {
        cx.discard(&format!("build_err:{}", msg_class(e, 40)));
        return;
    }
    let (n_acc, traction, braking, _regen) = common_labels(case, &tr, cx);
    sim_differential(case, &tr, cx);
    let nu = case.units.len();
    // own integrals of every pwr_* with a matching energy_* in the same state struct
    let mut own: Vec<BTreeMap<String, (f64, f64)>> = vec![BTreeMap::new(); nu]; // key -> (sum, abs sum)
    let mut own_con: BTreeMap<String, (f64, f64)> = BTreeMap::new();
    let mut soc0: Vec<f64> = vec![f64::NAN; nu];
    for (k, s) in tr.steps.iter().enumerate() {
        if !s.accepted {
            continue;
        }
        for (u, v) in s.post.iter().enumerate() {
            if soc0[u].is_nan() && has(&s.pre[u], "res.soc") {
                soc0[u] = g(&s.pre[u], "res.soc");
            }
            // ---- per-step power balances
            if has(v, "fc.pwr_fuel") {
                rel(cx, "C01|ledger", "fc.pwr_fuel=pwr_brake+pwr_loss", k, u, g(v, "fc.pwr_fuel"), &[g(v, "fc.pwr_brake"), g(v, "fc.pwr_loss")]);
                rel(cx, "C01|ledger", "fc.pwr_brake=gen.pwr_mech_in", k, u, g(v, "fc.pwr_brake"), &[g(v, "gen.pwr_mech_in")]);
                rel(cx, "C01|ledger", "gen.pwr_mech_in=prop_out+aux+loss", k, u, g(v, "gen.pwr_mech_in"), &[g(v, "gen.pwr_elec_prop_out"), g(v, "gen.pwr_elec_aux"), g(v, "gen.pwr_loss")]);
                rel(cx, "C01|ledger", "gen.pwr_elec_prop_out=edrv.pwr_elec_prop_in", k, u, g(v, "gen.pwr_elec_prop_out"), &[g(v, "edrv.pwr_elec_prop_in")]);
                // fuel = wheel + dyn brake + aux + losses
                rel(cx, "C01|ledger", "fuel=wheel+dynbrake+aux+losses", k, u, g(v, "fc.pwr_fuel"), &[
                    g(v, "loco.pwr_out"), g(v, "edrv.pwr_mech_dyn_brake"), g(v, "gen.pwr_elec_aux"),
                    g(v, "fc.pwr_loss"), g(v, "gen.pwr_loss"), g(v, "edrv.pwr_loss")]);
                // cumulative
                rel(cx, "C01|ledger", "fc.energy_fuel=energy_brake+energy_loss", k, u, g(v, "fc.energy_fuel"), &[g(v, "fc.energy_brake"), g(v, "fc.energy_loss")]);
                rel(cx, "C01|ledger", "fc.energy_brake=gen.energy_mech_in", k, u, g(v, "fc.energy_brake"), &[g(v, "gen.energy_mech_in")]);
                rel(cx, "C01|ledger", "gen.energy_mech_in=prop_out+aux+loss", k, u, g(v, "gen.energy_mech_in"), &[g(v, "gen.energy_elec_prop_out"), g(v, "gen.energy_elec_aux"), g(v, "gen.energy_loss")]);
                rel(cx, "C01|ledger", "gen.energy_elec_prop_out=edrv.energy_elec_prop_in", k, u, g(v, "gen.energy_elec_prop_out"), &[g(v, "edrv.energy_elec_prop_in")]);
                rel(cx, "C01|ledger", "energy:fuel=wheel+dynbrake+aux+losses", k, u, g(v, "fc.energy_fuel"), &[
                    g(v, "loco.energy_out"), g(v, "edrv.energy_mech_dyn_brake"), g(v, "gen.energy_elec_aux"),
                    g(v, "fc.energy_loss"), g(v, "gen.energy_loss"), g(v, "edrv.energy_loss")]);
                if s.engine_on {
                    // locomotive-level aux is what the generator supplied
                    rel(cx, "C01|ledger", "loco.pwr_aux=gen.pwr_elec_aux", k, u, g(v, "loco.pwr_aux"), &[g(v, "gen.pwr_elec_aux")]);
                }
            }
            if has(v, "res.soc") {
                rel(cx, "C01|ledger", "res.pwr_out_chemical=electrical+loss", k, u, g(v, "res.pwr_out_chemical"), &[g(v, "res.pwr_out_electrical"), g(v, "res.pwr_loss")]);
                rel(cx, "C01|ledger", "res.pwr_out_electrical=propulsion+aux", k, u, g(v, "res.pwr_out_electrical"), &[g(v, "res.pwr_out_propulsion"), g(v, "res.pwr_aux")]);
                rel(cx, "C01|ledger", "res.pwr_out_propulsion=edrv.pwr_elec_prop_in", k, u, g(v, "res.pwr_out_propulsion"), &[g(v, "edrv.pwr_elec_prop_in")]);
                rel(cx, "C01|ledger", "battery=wheel+dynbrake+aux+losses", k, u, g(v, "res.pwr_out_chemical"), &[
                    g(v, "loco.pwr_out"), g(v, "edrv.pwr_mech_dyn_brake"), g(v, "res.pwr_aux"), g(v, "res.pwr_loss"), g(v, "edrv.pwr_loss")]);
                rel(cx, "C01|ledger", "res.energy_out_chemical=electrical+loss", k, u, g(v, "res.energy_out_chemical"), &[g(v, "res.energy_out_electrical"), g(v, "res.energy_loss")]);
                rel(cx, "C01|ledger", "res.energy_out_electrical=propulsion+aux", k, u, g(v, "res.energy_out_electrical"), &[g(v, "res.energy_out_propulsion"), g(v, "res.energy_aux")]);
                rel(cx, "C01|ledger", "res.energy_out_propulsion=edrv.energy_elec_prop_in", k, u, g(v, "res.energy_out_propulsion"), &[g(v, "edrv.energy_elec_prop_in")]);
                rel(cx, "C01|ledger", "energy:battery=wheel+dynbrake+aux+losses", k, u, g(v, "res.energy_out_chemical"), &[
                    g(v, "loco.energy_out"), g(v, "edrv.energy_mech_dyn_brake"), g(v, "res.energy_aux"), g(v, "res.energy_loss"), g(v, "edrv.energy_loss")]);
                // SOC moves by chemical energy / capacity
                if let UnitSpec::Bel { res, .. } = &case.units[u] {
                    let want = soc0[u] - g(v, "res.energy_out_chemical") / res.capacity;
                    let got = g(v, "res.soc");
                    if !((want - got).abs() <= 1e-9 * (1.0 + (k as f64) * 1e-3)) {
                        cx.fail("C01|ledger|soc=soc0-energy_out_chemical/capacity", format!("step {k} unit {u}: soc {got} vs soc0 {} - {}/{} = {want}", soc0[u], g(v, "res.energy_out_chemical"), res.capacity));
                    }
                }
            }
            rel(cx, "C01|ledger", "edrv.pwr_elec_prop_in=mech_prop_out+loss", k, u, g(v, "edrv.pwr_elec_prop_in"), &[g(v, "edrv.pwr_mech_prop_out"), g(v, "edrv.pwr_loss")]);
            rel(cx, "C01|ledger", "loco.pwr_out=mech_prop_out-dyn_brake", k, u, g(v, "loco.pwr_out"), &[g(v, "edrv.pwr_mech_prop_out"), -g(v, "edrv.pwr_mech_dyn_brake")]);
            rel(cx, "C01|ledger", "edrv.energy_elec_prop_in=mech_prop_out+loss", k, u, g(v, "edrv.energy_elec_prop_in"), &[g(v, "edrv.energy_mech_prop_out"), g(v, "edrv.energy_loss")]);
            rel(cx, "C01|ledger", "loco.energy_out=mech_prop_out-dyn_brake", k, u, g(v, "loco.energy_out"), &[g(v, "edrv.energy_mech_prop_out"), -g(v, "edrv.energy_mech_dyn_brake")]);
            // ---- every energy_* is the integral of its pwr_* with this step's dt
            for (key, p) in v.iter() {
                let Some((comp, name)) = key.split_once('.') else { continue };
                let Some(suffix) = name.strip_prefix("pwr_") else { continue };
                let ekey = format!("{comp}.energy_{suffix}");
                if !has(v, &ekey) {
                    continue;
                }
                let e = own[u].entry(ekey.clone()).or_insert((0.0, 0.0));
                e.0 += p * s.dt;
                e.1 += (p * s.dt).abs();
                let got = g(v, &ekey);
                if !close(got, e.0, e.1 + got.abs(), 1e-9) {
                    cx.fail(format!("C01|integral|{ekey}"), format!("step {k} unit {u}: {ekey} = {got:e} but sum of {key}*dt = {:e}", e.0));
                }
            }
        }
        if case.consist {
            let c = &s.con_post;
            let sum = |key: &str| -> Vec<f64> { s.post.iter().map(|u| if has(u, key) { g(u, key) } else { 0.0 }).collect() };
            rel(cx, "C01|ledger", "consist.pwr_out=sum(loco.pwr_out)", k, 0, g(c, "con.pwr_out"), &sum("loco.pwr_out"));
            rel(cx, "C01|ledger", "consist.pwr_fuel=sum(fc.pwr_fuel)", k, 0, g(c, "con.pwr_fuel"), &sum("fc.pwr_fuel"));
            rel(cx, "C01|ledger", "consist.pwr_reves=sum(res.pwr_out_chemical)", k, 0, g(c, "con.pwr_reves"), &sum("res.pwr_out_chemical"));
            rel(cx, "C01|ledger", "consist.energy_out=sum(loco.energy_out)", k, 0, g(c, "con.energy_out"), &sum("loco.energy_out"));
            rel(cx, "C01|ledger", "consist.energy_fuel=sum(fc.energy_fuel)", k, 0, g(c, "con.energy_fuel"), &sum("fc.energy_fuel"));
            rel(cx, "C01|ledger", "consist.energy_res=sum(res.energy_out_chemical)", k, 0, g(c, "con.energy_res"), &sum("res.energy_out_chemical"));
            rel(cx, "C01|ledger", "consist.energy_out=pos-neg", k, 0, g(c, "con.energy_out"), &[g(c, "con.energy_out_pos"), -g(c, "con.energy_out_neg")]);
            for (pk, ek) in [("con.pwr_out", "con.energy_out"), ("con.pwr_fuel", "con.energy_fuel"), ("con.pwr_reves", "con.energy_res")] {
                let e = own_con.entry(ek.to_string()).or_insert((0.0, 0.0));
                e.0 += g(c, pk) * s.dt;
                e.1 += (g(c, pk) * s.dt).abs();
                if !close(g(c, ek), e.0, e.1 + g(c, ek).abs(), 1e-9) {
                    cx.fail(format!("C01|integral|{ek}"), format!("step {k}: {ek} = {:e} but sum of {pk}*dt = {:e}", g(c, ek), e.0));
                }
            }
        }
    }
    if case.consist && n_acc > 0 {
        let last = tr.steps.iter().filter(|s| s.accepted).last().unwrap();
        rel(cx, "C01|ledger", "get_energy_fuel()=consist.energy_fuel", n_acc, 0, tr.con_energy_fuel, &[g(&last.con_post, "con.energy_fuel")]);
        rel(cx, "C01|ledger", "get_net_energy_res()=consist.energy_res", n_acc, 0, tr.con_net_energy_res, &[g(&last.con_post, "con.energy_res")]);
    }
    if n_acc >= 5 && traction && braking {
        cx.nontrivial();
    }
}

// ---------------------------------------------------------------------------------------
// C08

pub fn check_c08(case: &PtCase, cx: &mut Ctx) {
    let tr = drive(case);
    if let Some(e) = &tr.build_err {
        cx.discard(&format!("build_err:{}", msg_class(e, 40)));
        return;
    }
    let (n_acc, _t, _b, regen) = common_labels(case, &tr, cx);
    let eps = |x: f64| 1e-9 * x.abs() + 1e-9;
    let mut prev: Vec<Vals> = vec![];
    let mut prev_con: Option<Vals> = None;
    let mut engine_off_seen = false;
    for (k, s) in tr.steps.iter().enumerate() {
        if !s.accepted {
            continue;
        }
        for (u, v) in s.post.iter().enumerate() {
            // unit demand: what this unit was asked for
            let unit_req = if case.consist { g(v, "loco.pwr_out") } else { s.request };
            for comp in ["fc", "gen", "edrv", "res"] {
                let lk = format!("{comp}.pwr_loss");
                if has(v, &lk) {
                    if !(g(v, &lk) >= -eps(g(v, &lk))) {
                        cx.fail(format!("C08|bound|{comp}.pwr_loss<0"), format!("step {k} unit {u}: {lk} = {:e}", g(v, &lk)));
                    }
                    let ek = format!("{comp}.eta");
                    let eta = g(v, &ek);
                    if !(eta > 0.0 && eta <= 1.0) {
                        cx.fail(format!("C08|bound|{comp}.eta-not-in-(0,1]"), format!("step {k} unit {u}: {ek} = {eta}"));
                    }
                }
            }
            let le = |cx: &mut Ctx, name: &str, out: f64, inp: f64| {
                if !(out.abs() <= inp.abs() + eps(inp)) {
                    cx.fail(format!("C08|bound|out>in:{name}"), format!("step {k} unit {u}: {name}: |out| {:e} > |in| {:e}", out.abs(), inp.abs()));
                }
            };
            if has(v, "fc.pwr_fuel") {
                le(cx, "fc", g(v, "fc.pwr_brake"), g(v, "fc.pwr_fuel"));
                le(cx, "gen", g(v, "gen.pwr_elec_prop_out") + g(v, "gen.pwr_elec_aux"), g(v, "gen.pwr_mech_in"));
            }
            if has(v, "res.soc") {
                if g(v, "res.pwr_out_electrical") >= 0.0 {
                    le(cx, "res.discharge", g(v, "res.pwr_out_electrical"), g(v, "res.pwr_out_chemical"));
                } else {
                    le(cx, "res.charge", g(v, "res.pwr_out_chemical"), g(v, "res.pwr_out_electrical"));
                }
            }
            if g(v, "edrv.pwr_mech_prop_out") >= 0.0 {
                le(cx, "edrv.traction", g(v, "edrv.pwr_mech_prop_out"), g(v, "edrv.pwr_elec_prop_in"));
            } else {
                le(cx, "edrv.regen", g(v, "edrv.pwr_elec_prop_in"), g(v, "edrv.pwr_mech_prop_out"));
            }
            le(cx, "edrv.dyn_brake", g(v, "edrv.pwr_elec_dyn_brake"), g(v, "edrv.pwr_mech_dyn_brake"));
            // dynamic braking only when braking is demanded
            let db = g(v, "edrv.pwr_mech_dyn_brake");
            if !(db >= 0.0) {
                cx.fail("C08|bound|dyn_brake<0", format!("step {k} unit {u}: pwr_mech_dyn_brake {db:e}"));
            }
            if db > 0.0 && !(unit_req < 0.0) {
                cx.fail("C08|bound|dyn_brake-without-braking-demand", format!("step {k} unit {u}: pwr_mech_dyn_brake {db:e} while unit demand {unit_req:e}"));
            }
            // monotone cumulative energies
            if let Some(p) = prev.get(u) {
                for key in ["fc.energy_fuel", "fc.energy_loss", "fc.energy_idle_fuel", "gen.energy_loss", "edrv.energy_loss", "res.energy_loss", "edrv.energy_mech_dyn_brake", "edrv.energy_elec_dyn_brake"] {
                    if has(v, key) && !(g(v, key) >= g(p, key) - eps(g(p, key))) {
                        cx.fail(format!("C08|order|{key}-decreased"), format!("step {k} unit {u}: {key} {:e} -> {:e}", g(p, key), g(v, key)));
                    }
                }
            }
            // engine commanded off
            if !s.engine_on {
                engine_off_seen = true;
                if has(v, "fc.pwr_fuel") {
                    if g(v, "fc.pwr_fuel") != 0.0 {
                        cx.fail("C08|bound|engine_off.pwr_fuel>0", format!("step {k} unit {u}: engine off but fc.pwr_fuel = {:e} (idle fuel parameter {:?})", g(v, "fc.pwr_fuel"), match case.units.get(u) { Some(UnitSpec::Conv { fc, .. }) => fc.idle, _ => 0.0 }));
                    }
                    if g(v, "fc.pwr_idle_fuel") != 0.0 {
                        cx.fail("C08|bound|engine_off.pwr_idle_fuel>0", format!("step {k} unit {u}: {:e}", g(v, "fc.pwr_idle_fuel")));
                    }
                    if g(v, "gen.pwr_elec_aux") != 0.0 {
                        cx.fail("C08|bound|engine_off.gen_aux>0", format!("step {k} unit {u}: {:e}", g(v, "gen.pwr_elec_aux")));
                    }
                }
                if has(v, "res.pwr_aux") && g(v, "res.pwr_aux") != 0.0 {
                    cx.fail("C08|bound|engine_off.res_aux>0", format!("step {k} unit {u}: {:e}", g(v, "res.pwr_aux")));
                }
                if g(v, "loco.pwr_aux") != 0.0 {
                    cx.fail("C08|bound|engine_off.loco_aux>0", format!("step {k} unit {u}: {:e}", g(v, "loco.pwr_aux")));
                }
            }
        }
        // the consist's own fuel figures (sums the consist computes itself, also over hybrid
        // units): fuel power is never negative, cumulative fuel never decreases
        if case.consist && has(&s.con_post, "con.pwr_fuel") {
            let pf = g(&s.con_post, "con.pwr_fuel");
            if !(pf >= -eps(pf)) {
                cx.fail("C08|bound|consist.pwr_fuel<0", format!("step {k}: consist reports fuel power {pf:e}"));
            }
            if let Some(pc) = prev_con.as_ref() {
                let (a, b) = (g(pc, "con.energy_fuel"), g(&s.con_post, "con.energy_fuel"));
                if !(b >= a - eps(a)) {
                    cx.fail("C08|order|consist.energy_fuel-decreased", format!("step {k}: {a:e} -> {b:e}"));
                }
            }
            prev_con = Some(s.con_post.clone());
        }
        prev = s.post.clone();
    }
    if n_acc >= 3 && (engine_off_seen || regen) {
        cx.nontrivial();
    }
}

// ---------------------------------------------------------------------------------------
// C09

pub fn check_c09(case: &PtCase, cx: &mut Ctx) {
    let tr = drive(case);
    if let Some(e) = &tr.build_err {
        cx.discard(&format!("build_err:{}", msg_class(e, 40)));
        return;
    }
    let (_n_acc, ..) = common_labels(case, &tr, cx);
    const TOL: f64 = 1e-3; // the code's own documented tolerance for FC / RES limit checks
    let le_tol = |a: f64, b: f64| a <= b * (1.0 + TOL) + TOL || a <= b + TOL;
    let le_tight = |a: f64, b: f64| a <= b + 1e-9 * b.abs() + 1e-6;
    let mut at_limit_kinds: std::collections::BTreeSet<u8> = Default::default();
    let mut rejected_over = false;
    let mut prev_brake: Vec<f64> = vec![0.0; case.units.len()];
    for (k, s) in tr.steps.iter().enumerate() {
        if !s.accepted {
            if s.frac > 1.001 && s.kind >= 1 && s.kind <= 3 {
                rejected_over = true;
            }
            continue;
        }
        if (0.999..=1.0005).contains(&s.frac) && (1..=3).contains(&s.kind) && s.request != 0.0 {
            at_limit_kinds.insert(s.kind);
        }
        for (u, v) in s.post.iter().enumerate() {
            let pre = &s.pre[u];
            let spec = &case.units[u];
            let edrv_rating = spec.edrv().pwr_max;
            // ---- published limits are sane
            let pom = g(pre, "loco.pwr_out_max");
            let aux = g(pre, "loco.pwr_aux");
            if !(pom >= -aux - 1e-6) {
                cx.fail("C09|publish|loco.pwr_out_max<-aux", format!("step {k} unit {u}: published pwr_out_max {pom:e}, aux {aux:e}"));
            }
            if !le_tight(pom, edrv_rating) {
                cx.fail("C09|publish|loco.pwr_out_max>edrv-rating", format!("step {k} unit {u}: {pom:e} > {edrv_rating:e}"));
            }
            let prm = g(pre, "loco.pwr_regen_max");
            if !(prm >= 0.0 && le_tight(prm, edrv_rating)) {
                cx.fail("C09|publish|loco.pwr_regen_max-out-of-range", format!("step {k} unit {u}: {prm:e} (edrv rating {edrv_rating:e})"));
            }
            if let UnitSpec::Conv { fc, gen, .. } = spec {
                let lim = g(pre, "fc.pwr_out_max");
                let init_eff = fc.init.max(fc.pwr_max / 10.0);
                let ramp = prev_brake[u] + fc.pwr_max / fc.lag * s.dt;
                let allowed = fc.pwr_max.min(ramp.max(init_eff));
                if !le_tight(lim, allowed) {
                    cx.fail("C09|publish|fc.transient-limit-rises-faster-than-ramp", format!("step {k} unit {u}: published fc limit {lim:e} > min(rating {:e}, max(prev_brake {:e} + rate*dt, init {init_eff:e})) = {allowed:e}", fc.pwr_max, prev_brake[u]));
                }
                if !(lim >= 0.0) {
                    cx.fail("C09|publish|fc.transient-limit<0", format!("step {k} unit {u}: {lim:e}"));
                }
                let gom = g(pre, "gen.pwr_elec_out_max");
                if !(gom >= 0.0 && le_tight(gom, gen.pwr_max)) {
                    cx.fail("C09|publish|gen.pwr_elec_out_max-out-of-range", format!("step {k} unit {u}: {gom:e} rating {:e}", gen.pwr_max));
                }
                // ---- accepted step within limits
                let brake = g(v, "fc.pwr_brake");
                if !le_tol(brake, fc.pwr_max) {
                    cx.fail("C09|bound|fc.pwr_brake>rating", format!("step {k} unit {u}: {brake:e} > {:e}", fc.pwr_max));
                }
                if !le_tol(brake, lim) {
                    cx.fail("C09|bound|fc.pwr_brake>transient-limit", format!("step {k} unit {u}: {brake:e} > published {lim:e}"));
                }
                let gout = g(v, "gen.pwr_elec_prop_out") + g(v, "gen.pwr_elec_aux");
                if !le_tight(gout, gen.pwr_max) {
                    cx.fail("C09|bound|gen.out>rating", format!("step {k} unit {u}: {gout:e} > {:e}", gen.pwr_max));
                }
                // the shaft power the next limit may ramp from is what the generator actually
                // drew in this step (the engine's own `pwr_brake` is the field under test: with
                // the engine off it must be zero like the generator's input)
                prev_brake[u] = g(v, "gen.pwr_mech_in").min(brake);
            }
            if let UnitSpec::Bel { res, .. } = spec {
                let dis = g(pre, "res.pwr_disch_max");
                let chg = g(pre, "res.pwr_charge_max");
                // interp1d rounding leaves ~1e-16 relative noise around zero at the window ends
                let nn = |x: f64| x >= -1e-9 * res.pwr_max;
                if !(nn(dis) && le_tight(dis, res.pwr_max)) {
                    cx.fail("C09|publish|res.pwr_disch_max-out-of-range", format!("step {k} unit {u}: {dis:e} rating {:e}", res.pwr_max));
                }
                if !(nn(chg) && le_tight(chg, res.pwr_max)) {
                    cx.fail("C09|publish|res.pwr_charge_max-out-of-range", format!("step {k} unit {u}: {chg:e} rating {:e}", res.pwr_max));
                }
                let el = g(v, "res.pwr_out_electrical");
                if !le_tol(el.abs(), res.pwr_max) {
                    cx.fail("C09|bound|res.electrical>rating", format!("step {k} unit {u}: {el:e} rating {:e}", res.pwr_max));
                }
                if el >= 0.0 && !le_tol(el, dis) {
                    cx.fail("C09|bound|res.discharge>published-limit", format!("step {k} unit {u}: {el:e} > {dis:e}"));
                }
                if el < 0.0 && !le_tol(-el, chg) {
                    cx.fail("C09|bound|res.charge>published-limit", format!("step {k} unit {u}: {:e} > {chg:e}", -el));
                }
                let soc = g(v, "res.soc");
                if !(soc >= res.min_soc - 1e-9 && soc <= res.max_soc + 1e-9) {
                    cx.fail("C09|bound|soc-outside-window", format!("step {k} unit {u}: soc {soc} window [{}, {}] (soc before {}, dt {}, dt bound {})", res.min_soc, res.max_soc, g(pre, "res.soc"), s.dt, res.dt_bound()));
                }
            }
            // drivetrain within rating, both directions
            let out = g(v, "edrv.pwr_out_req");
            if !le_tight(out, edrv_rating) {
                cx.fail("C09|bound|edrv.traction>rating", format!("step {k} unit {u}: {out:e} > {edrv_rating:e}"));
            }
            if !le_tight(-out, edrv_rating) {
                let w = if case.consist { "consist" } else { "standalone" };
                cx.fail(format!("C09|bound|edrv.braking>rating:{w}"), format!("step {k} unit {u}: braking {:e} > drivetrain rating {edrv_rating:e}", -out));
            }
            // tractive power within the published locomotive limit
            let po = g(v, "loco.pwr_out");
            if po > 0.0 && !le_tight(po, pom) {
                let w = if case.consist { "consist" } else { "standalone" };
                // classify by how far above: within the code's component tolerance or beyond
                cx.count(if po <= pom * (1.0 + 5.0 * TOL) { "over_published_by<=0.5%" } else { "over_published_by>0.5%" }, 1);
                cx.fail(format!("C09|bound|loco.pwr_out>published-pwr_out_max:{w}"), format!("step {k} unit {u}: pwr_out {po:e} > published pwr_out_max {pom:e} (ratio {})", po / pom));
            }
            // regenerated share within the published regen limit
            let regen = -g(v, "edrv.pwr_mech_prop_out");
            if regen > 0.0 && !le_tight(regen, prm) {
                cx.fail("C09|bound|regen>published-pwr_regen_max", format!("step {k} unit {u}: regen {regen:e} > {prm:e}"));
            }
        }
        if case.consist {
            let c = &s.con_pre;
            let sum: f64 = s.pre.iter().map(|u| g(u, "loco.pwr_out_max")).sum();
            if !close(g(c, "con.pwr_out_max"), sum, sum.abs() + 1.0, 1e-9) {
                cx.fail("C09|publish|consist.pwr_out_max!=sum", format!("step {k}: {:e} vs {sum:e}", g(c, "con.pwr_out_max")));
            }
            if s.request > 0.0 && !le_tight(s.request, g(c, "con.pwr_out_max")) {
                cx.fail("C09|bound|consist.request>published-pwr_out_max", format!("step {k}: accepted request {:e} > {:e}", s.request, g(c, "con.pwr_out_max")));
            }
            if s.request < 0.0 && !le_tight(-s.request, g(&s.con_post, "con.pwr_dyn_brake_max")) {
                cx.fail("C09|bound|consist.braking>pwr_dyn_brake_max", format!("step {k}: accepted braking {:e} > {:e}", -s.request, g(&s.con_post, "con.pwr_dyn_brake_max")));
            }
        }
    }
    cx.label_if(rejected_over, "rejected_over_limit_request");
    cx.label_if(!at_limit_kinds.is_empty(), "accepted_at_limit");
    if at_limit_kinds.len() >= 2 || (!at_limit_kinds.is_empty() && rejected_over) {
        cx.nontrivial();
    }
}

// ---------------------------------------------------------------------------------------
// C10

pub fn check_c10(case: &PtCase, cx: &mut Ctx) {
    let tr = drive(case);
    if let Some(e) = &tr.build_err {
        cx.discard(&format!("build_err:{}", msg_class(e, 40)));
        return;
    }
    common_labels(case, &tr, cx);
    let n_bel = case.units.iter().filter(|u| u.is_bel()).count();
    let mixed = n_bel > 0 && n_bel < case.units.len();
    let mut deficit_seen = false;
    let mut brake_beyond_regen = false;
    let tight = |a: f64, b: f64| a <= b + 1e-9 * b.abs() + 1e-6;
    for (k, s) in tr.steps.iter().enumerate() {
        if !s.accepted {
            continue;
        }
        let c = &s.con_pre;
        let outs: Vec<f64> = s.post.iter().map(|u| g(u, "loco.pwr_out")).collect();
        let sum: f64 = outs.iter().sum();
        let scale = s.request.abs() + outs.iter().map(|x| x.abs()).sum::<f64>();
        if !close(sum, s.request, scale, 1e-8) {
            cx.fail("C10|sum|unit-powers!=request", format!("step {k}: sum {sum:e} vs request {:e}; units {outs:?}", s.request));
        }
        let res_cap = g(c, "con.pwr_out_max_reves");
        let regen_cap = g(c, "con.pwr_regen_max");
        if s.request > 0.0 && s.request > res_cap {
            deficit_seen = true;
        }
        if s.request < 0.0 && -s.request > regen_cap {
            brake_beyond_regen = true;
        }
        for (u, v) in s.post.iter().enumerate() {
            let pre = &s.pre[u];
            let po = outs[u];
            let pom = g(pre, "loco.pwr_out_max");
            let rating = case.units[u].edrv().pwr_max;
            let bel = case.units[u].is_bel();
            // (with limit checking off a demand above the published limits is accepted by design)
            if po > 0.0 && !tight(po, pom) && !case.limits_off {
                cx.fail("C10|bound|unit.traction>published-limit", format!("step {k} unit {u}: {po:e} > {pom:e}"));
            }
            if po < 0.0 && !tight(-po, rating) {
                cx.fail("C10|bound|unit.braking>edrv-rating", format!("step {k} unit {u}: {:e} > {rating:e}", -po));
            }
            if s.request > 0.0 && po < -1e-6 {
                let why = if pom < 0.0 { ":negative-published-limit" } else { "" };
                cx.fail(format!("C10|sign|unit-brakes-while-consist-pushes{why}"), format!("step {k} unit {u}: unit power {po:e}, request {:e}, unit published pwr_out_max {pom:e}", s.request));
            }
            if s.request < 0.0 && po > 1e-6 {
                cx.fail("C10|sign|unit-pushes-while-consist-brakes", format!("step {k} unit {u}: unit power {po:e}, request {:e}", s.request));
            }
            if s.request == 0.0 && po != 0.0 {
                cx.fail("C10|sign|unit-nonzero-at-zero-request", format!("step {k} unit {u}: {po:e}"));
            }
            let regen = -g(v, "edrv.pwr_mech_prop_out");
            if regen > 1e-9 {
                if !bel {
                    cx.fail("C10|regen|assigned-to-non-battery-unit", format!("step {k} unit {u}: regen {regen:e}"));
                } else if !tight(regen, g(pre, "loco.pwr_regen_max")) {
                    cx.fail("C10|regen|above-published-limit", format!("step {k} unit {u}: {regen:e} > {:e}", g(pre, "loco.pwr_regen_max")));
                }
            }
            // battery-first policy
            if case.pdct == 0 && s.request > 0.0 {
                if s.request <= res_cap {
                    if !bel && po.abs() > 1e-6 {
                        cx.fail("C10|greedy|fuel-unit-used-while-battery-units-suffice", format!("step {k} unit {u}: {po:e}; request {:e} <= battery capability {res_cap:e}", s.request));
                    }
                } else if bel && !close(po, pom, pom.abs(), 1e-9) {
                    cx.fail("C10|greedy|battery-unit-not-at-limit-in-deficit", format!("step {k} unit {u}: {po:e} vs limit {pom:e}"));
                }
            }
        }
        if case.pdct == 0 && s.request > res_cap && s.request > 0.0 {
            let fuel_sum: f64 = s.post.iter().enumerate().filter(|(u, _)| !case.units[*u].is_bel()).map(|(_, v)| g(v, "loco.pwr_out")).sum();
            let deficit = s.request - res_cap;
            if !close(fuel_sum, deficit, s.request.abs() + res_cap.abs(), 1e-8) {
                cx.fail("C10|greedy|fuel-units-do-not-cover-exactly-the-deficit", format!("step {k}: fuel units {fuel_sum:e} vs deficit {deficit:e}"));
            }
        }
    }
    cx.label_if(deficit_seen, "deficit_regime");
    cx.label_if(brake_beyond_regen, "braking_beyond_regen");
    cx.label_if(mixed, "mixed_consist");
    cx.label_if(case.limits_off, "limit_checking_off");
    cx.label_if(case.drop_unit_before.is_some(), "last_unit_taken_out_of_the_live_consist");
    if mixed && (deficit_seen || brake_beyond_regen) {
        cx.nontrivial();
    }
}

// ---------------------------------------------------------------------------------------

fn pt_assumptions() -> Vec<String> {
    vec![
        "ratings 0.3-6 MW; FC eta in [0.06,0.6], generator/drivetrain eta in [0.6,1.0] incl. exactly 1.0 and flat maps; x/eta strictly increasing (constructor precondition)".into(),
        "battery: capacity 0.2-12 GJ (raised so that dt >= 0.25 s satisfies the SOC-window bound dt <= 0.5*eta_min*E*w/P), 3-D map values in [0.51,1.0], temperature inside and outside the grid, initial SOC inside the window (incl. both ends and both ramps)".into(),
        "time steps 0.05..min(10 s, battery bound), variable per step; a rejected request is undone by continuing from the copy taken before the attempt".into(),
        "demands are fractions {0,.25,.5,.75,.9,.999,1,1.0005,1.002,1.2} of the limit just published (traction, regeneration, dynamic braking) or absolute watts".into(),
        "tolerances: ledgers 1e-9 x (sum of |terms|) + 1e-9; inequalities the code checks with its documented 1e-3 tolerance are checked with that tolerance, others with 1e-9 relative".into(),
    ]
}

macro_rules! pt_prop {
    ($name:ident, $id:expr, $check:ident, $force:expr, $quick:expr, $rule:expr, $panic:expr, $retry:expr) => {
        pt_prop!($name, $id, $check, $force, $quick, $rule, $panic, $retry, 0.0);
    };
    ($name:ident, $id:expr, $check:ident, $force:expr, $quick:expr, $rule:expr, $panic:expr, $retry:expr, $coarse:expr) => {
        pub struct $name;
        impl $name {
            fn gen(g: &mut Gen, tier: Tier) -> PtCase {
                let mut c = gen_pt_case_dt(g, tier, $force, $coarse);
                if $retry > 0.0 && !c.consist {
                    c.retry_on_same_object = g.bool($retry);
                }
                // the second law is claimed for every component: C08's consists also carry
                // default hybrid locomotives (C01 / C09 / C10 are stated for conventional and
                // battery-electric units only)
                if $id == "C08" && c.consist && g.bool(0.2) {
                    c.hybrids = g.usize(1, 2);
                }
                // a live consist that loses its last unit between two steps (C09, C10), and
                // consists with limit checking off (C10: the split's own guards must still
                // keep every unit's braking within its drivetrain rating)
                if ($id == "C10" || $id == "C09") && c.consist && c.units.len() >= 2 && g.bool(0.12) {
                    let at = g.usize(0, c.steps.len().saturating_sub(1));
                    c.drop_unit_before = Some((at, g.int(0, 2) as u8));
                    // the step after the change brakes against the capability published before it
                    if g.bool(0.7) {
                        c.steps[at].kind = 3;
                        c.steps[at].frac = [0.75, 0.9, 0.999, 1.0][g.idx(4)];
                        c.steps[at].engine_on = true;
                    }
                }
                if $id == "C10" && c.consist && g.bool(0.12) {
                    c.limits_off = true;
                }
                // consists first created from their fuel-burning units and completed afterwards
                // (C10: the battery-first rule must look at the units that are there now; C01:
                // consist totals)
                if ($id == "C10" || $id == "C01") && c.consist && g.bool(0.15) {
                    c.fuel_units_first = 1 + g.idx(2) as u8;
                }
                // "a switched-off engine burns nothing" and the second law do not depend on the
                // limit assertions: 15 % of C08's stand-alone units run with them off
                if $id == "C08" && !c.consist && g.bool(0.15) {
                    c.limits_off = true;
                }
                // C09, stand-alone units: in 10 % of the histories one step in four has its
                // aux load switched off between the publication of the limits and the demand
                if $id == "C09" && !c.consist && g.bool(0.1) {
                    for s in c.steps.iter_mut() {
                        s.aux_off_after_publish = g.bool(0.25);
                    }
                }
                c
            }
            fn check(c: &PtCase, cx: &mut Ctx) {
                $check(c, cx)
            }
        }
        impl Property for $name {
            fn id(&self) -> &'static str {
                $id
            }
            fn cases(&self, tier: Tier) -> usize {
                match tier {
                    Tier::Quick => $quick,
                    Tier::Thorough => $quick * 6,
                }
            }
            fn tape_len(&self, _t: Tier) -> usize {
                3072
            }
            crate::typed_property!($name, PtCase);
            fn rule(&self) -> String {
                $rule.into()
            }
            fn assumptions(&self) -> Vec<String> {
                pt_assumptions()
            }
            fn panic_is_violation(&self) -> bool {
                $panic
            }
        }
    };
}

pt_prop!(C01, "C01", check_c01, None, 20000,
    "generated conventional / battery-electric unit (55%) or consist of 1-8 units under RESGreedy/Proportional (45%), generated maps/ratings/SOC, 1-40 (thorough 1-80) adversarial steps; after every accepted step all per-step power balances, all cumulative energy balances, every energy_* == own sum of pwr_* x dt, SOC == soc0 - chemical energy/capacity, consist totals == sums over units. Non-trivial: >=5 accepted steps incl. >=1 traction and >=1 braking step; distinct = distinct case JSON; 30 % of the histories ignore the battery's SOC-window bound on the step size (a step may carry the SOC past the end of its window)", false, 0.0, 0.3);
pt_prop!(C08, "C08", check_c08, None, 20000,
    "same histories as C01 (stand-alone units get engine-off steps with 12% probability); per accepted step: every loss >= 0, every eta in (0,1], |out| <= |in| per converter and direction, cumulative fuel/loss/dyn-brake energies non-decreasing, dynamic braking only under braking demand, engine off => zero fuel, idle fuel and aux. Non-trivial: >=3 accepted steps incl. an engine-off step or a regenerating step", false, 0.0);
pt_prop!(C09, "C09", check_c09, None, 20000,
    "same adversarial histories; after every accepted step: FC shaft power within rating and within the transient limit published for the step (code tolerance 1e-3), published transient limit <= min(rating, max(prev shaft power + rating/lag*dt, init)), generator/drivetrain/battery within ratings, battery power within published SOC-dependent limits, tractive power <= published unit limit, regen <= published regen limit, SOC inside window, published limits in [0 (or -aux), rating]. Non-trivial: accepted steps at 0.999-1.0005 of >=2 different limits, or one such plus a correctly rejected over-limit request; 30 % of the stand-alone histories carry on with the same object after a rejected request (a rejection must not move the engine's ramp base)", false, 0.3);
pt_prop!(C10, "C10", check_c10, Some(true), 20000,
    "consists of 1-8 units (any mix/order), both shipped policies, adversarial demand histories; after every accepted step: sum of unit powers == request (1e-8), unit traction <= its published limit, unit braking <= drivetrain rating, no opposite-sign unit, regen only on battery units and <= their published regen limit, RESGreedy: fuel units idle while battery capability suffices, else battery units at limit and fuel units cover exactly the deficit. Non-trivial: mixed consist that saw the deficit regime or braking beyond total regen", true, 0.0);
