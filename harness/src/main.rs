//! vcheck — property-based checks for NREL/altrios (see /verif/DESIGN.md)
//!
//!   vcheck run <id> quick|thorough        supervisor: replay tier + generated tier
//!   vcheck replay <id> <file>             supervisor: one replay file
//!   vcheck worker <id> <tier> <start> <end> <skipfile> <outfile>
//!   vcheck one <id> <casefile> <outfile>
//!   vcheck list

use altrios_verif::engine::run::*;
use altrios_verif::engine::{self, Tier};
use altrios_verif::props;

fn main() {
    let args: Vec<String> = std::env::args().collect();
    let usage = || -> ! {
        eprintln!("usage: vcheck run <id> quick|thorough | replay <id> <file> | list");
        std::process::exit(2)
    };
    if args.len() < 2 {
        usage();
    }
    let reg = props::registry();
    let find = |id: &str| -> &'static dyn engine::Property {
        match reg.iter().find(|p| p.id() == id) {
            Some(p) => *p,
            None => {
                eprintln!("unknown property {id}");
                std::process::exit(2)
            }
        }
    };
    let tier = |s: &str| match s {
        "quick" => Tier::Quick,
        "thorough" => Tier::Thorough,
        _ => usage(),
    };
    let code = match args[1].as_str() {
        "list" => {
            for p in &reg {
                println!("{}", p.id());
            }
            0
        }
        "run" if args.len() >= 4 => supervise(find(&args[2]), tier(&args[3]), None),
        "replay" if args.len() >= 4 => supervise(find(&args[2]), Tier::Quick, Some(&args[3])),
        "worker" if args.len() >= 8 => worker_main(
            find(&args[2]),
            tier(&args[3]),
            args[4].parse().unwrap(),
            args[5].parse().unwrap(),
            &args[6],
            &args[7],
        ),
        "gen" if args.len() >= 5 => gen_main(find(&args[2]), tier(&args[3]), args[4].parse().unwrap()),
        "seeds" if args.len() >= 5 => altrios_verif::engine::run::seeds_main(find(&args[2]), &args[3], args[4].parse().unwrap()),
        "from-bytes" if args.len() >= 4 => altrios_verif::engine::run::from_bytes_main(find(&args[2]), &args[3]),
        "one" if args.len() >= 5 => one_main(find(&args[2]), &args[3], &args[4]),
        "c18-once" if args.len() >= 3 => props::c18::once_main(&args[2]),
        "probe-walk" if args.len() >= 3 => props::train_run::probe_walk_main(&args[2]),
        _ => usage(),
    };
    std::process::exit(code);
}
