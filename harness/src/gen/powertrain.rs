//! D-FC/GEN/EDRV, D-RES, D-LOCO, D-CONSIST, D-DEMAND (DESIGN.md §3).
//! Specs are plain serialisable data; `build_*` turns them into altrios objects through the
//! public constructors / pub fields only.

use crate::engine::Gen;
use altrios_core::consist::locomotive::powertrain::electric_drivetrain::ElectricDrivetrain;
use altrios_core::consist::locomotive::powertrain::fuel_converter::FuelConverter;
use altrios_core::consist::locomotive::powertrain::generator::Generator;
use altrios_core::consist::locomotive::powertrain::reversible_energy_storage::ReversibleEnergyStorage;
use altrios_core::consist::locomotive::{
    BatteryElectricLoco, ConventionalLoco, LocoParams, Locomotive, PowertrainType,
};
use altrios_core::consist::{Consist, PowerDistributionControlType, Proportional, RESGreedy};
use altrios_core::uc;
use serde::{Deserialize, Serialize};

#[derive(Serialize, Deserialize, Clone, Debug, PartialEq)]
pub struct FcSpec {
    pub pwr_max: f64,
    pub init: f64,
    pub lag: f64,
    pub fracs: Vec<f64>,
    pub etas: Vec<f64>,
    pub idle: f64,
}

#[derive(Serialize, Deserialize, Clone, Debug, PartialEq)]
pub struct MapSpec {
    pub pwr_max: f64,
    pub fracs: Vec<f64>,
    pub etas: Vec<f64>,
}

#[derive(Serialize, Deserialize, Clone, Debug, PartialEq)]
pub struct ResSpec {
    pub pwr_max: f64,
    pub capacity: f64,
    pub min_soc: f64,
    pub max_soc: f64,
    pub hi_ramp: Option<f64>,
    pub lo_ramp: Option<f64>,
    pub temps: Vec<f64>,
    pub socs: Vec<f64>,
    pub crates: Vec<f64>,
    pub values: Vec<Vec<Vec<f64>>>,
    pub temp: f64,
    pub soc0: f64,
}

impl ResSpec {
    pub fn eta_min(&self) -> f64 {
        self.values.iter().flatten().flatten().cloned().fold(1.0, f64::min)
    }
    pub fn lo_width(&self) -> f64 {
        self.lo_ramp.map(|r| r - self.min_soc).unwrap_or(0.05)
    }
    pub fn hi_width(&self) -> f64 {
        self.hi_ramp.map(|r| self.max_soc - r).unwrap_or(0.05)
    }
    /// largest time step for which the linear derating provably keeps SOC inside the window
    pub fn dt_bound(&self) -> f64 {
        0.5 * self.eta_min() * self.capacity * self.lo_width().min(self.hi_width()) / self.pwr_max
    }
}

#[derive(Serialize, Deserialize, Clone, Debug, PartialEq)]
pub enum UnitSpec {
    Conv { fc: FcSpec, gen: MapSpec, edrv: MapSpec, aux_offset: f64, aux_coeff: f64 },
    Bel { res: ResSpec, edrv: MapSpec, aux_offset: f64, aux_coeff: f64 },
}

impl UnitSpec {
    /// make every efficiency map constant (publish path and solve path then agree exactly)
    pub fn flatten_maps(&mut self) {
        let flat = |m: &mut MapSpec| {
            let e = m.etas[0];
            m.etas.iter_mut().for_each(|x| *x = e);
        };
        match self {
            UnitSpec::Conv { fc, gen, edrv, .. } => {
                let e = fc.etas[0];
                fc.etas.iter_mut().for_each(|x| *x = e);
                flat(gen);
                flat(edrv);
            }
            UnitSpec::Bel { res, edrv, .. } => {
                let e = res.values[0][0][0];
                res.values.iter_mut().flatten().flatten().for_each(|x| *x = e);
                flat(edrv);
            }
        }
    }
    pub fn harmonise_ratings(&mut self) {
        match self {
            // 5 % head-room: with an efficiency of exactly 1.0 the published limit would sit on
            // the next component's rating and the code's exact `<=` then fails by one ulp
            UnitSpec::Conv { fc, gen, edrv, .. } => {
                gen.pwr_max = gen.pwr_max.max((fc.pwr_max * 1.05 / 1000.0).ceil() * 1000.0);
                edrv.pwr_max = edrv.pwr_max.max((gen.pwr_max * 1.05 / 1000.0).ceil() * 1000.0);
            }
            UnitSpec::Bel { res, edrv, .. } => {
                edrv.pwr_max = edrv.pwr_max.max((res.pwr_max * 1.05 / 1000.0).ceil() * 1000.0);
            }
        }
    }
    pub fn is_bel(&self) -> bool {
        matches!(self, UnitSpec::Bel { .. })
    }
    pub fn edrv(&self) -> &MapSpec {
        match self {
            UnitSpec::Conv { edrv, .. } => edrv,
            UnitSpec::Bel { edrv, .. } => edrv,
        }
    }
}

// ---------------------------------------------------------------------------------------
// builders

pub fn build_fc(s: &FcSpec) -> FuelConverter {
    let mut fc = FuelConverter::default();
    fc.pwr_out_max = uc::W * s.pwr_max;
    fc.pwr_out_max_init = uc::W * s.init;
    fc.pwr_ramp_lag = uc::S * s.lag;
    fc.pwr_out_frac_interp = s.fracs.clone();
    fc.eta_interp = s.etas.clone();
    fc.pwr_idle_fuel = uc::W * s.idle;
    fc.save_interval = None;
    fc
}

pub fn build_gen(s: &MapSpec) -> anyhow::Result<Generator> {
    Generator::new(s.fracs.clone(), s.etas.clone(), s.pwr_max, None)
}

pub fn build_edrv(s: &MapSpec) -> anyhow::Result<ElectricDrivetrain> {
    ElectricDrivetrain::new(s.fracs.clone(), s.etas.clone(), s.pwr_max, None)
}

pub fn build_res(s: &ResSpec) -> ReversibleEnergyStorage {
    let mut res = ReversibleEnergyStorage::default();
    res.eta_interp_grid = [s.temps.clone(), s.socs.clone(), s.crates.clone()];
    res.eta_interp_values = s.values.clone();
    res.pwr_out_max = uc::W * s.pwr_max;
    res.energy_capacity = uc::J * s.capacity;
    res.min_soc = uc::R * s.min_soc;
    res.max_soc = uc::R * s.max_soc;
    res.soc_hi_ramp_start = s.hi_ramp.map(|x| uc::R * x);
    res.soc_lo_ramp_start = s.lo_ramp.map(|x| uc::R * x);
    res.state.soc = uc::R * s.soc0;
    res.state.temperature_celsius = s.temp;
    res.save_interval = None;
    res
}

pub fn build_unit(u: &UnitSpec, save_interval: Option<usize>) -> anyhow::Result<Locomotive> {
    match u {
        UnitSpec::Conv { fc, gen, edrv, aux_offset, aux_coeff } => {
            let mut loco = Locomotive::default();
            loco.loco_type = PowertrainType::ConventionalLoco(ConventionalLoco::new(
                build_fc(fc),
                build_gen(gen)?,
                build_edrv(edrv)?,
            ));
            loco.pwr_aux_offset = uc::W * *aux_offset;
            loco.pwr_aux_traction_coeff = uc::R * *aux_coeff;
            loco.set_save_interval(save_interval);
            Ok(loco)
        }
        UnitSpec::Bel { res, edrv, aux_offset, aux_coeff } => Locomotive::build_battery_electric_loco(
            build_res(res),
            build_edrv(edrv)?,
            LocoParams {
                pwr_aux_offset: uc::W * *aux_offset,
                pwr_aux_traction_coeff: uc::R * *aux_coeff,
                force_max: uc::N * 667.2e3,
                mass: None,
            },
            save_interval,
        ),
    }
}

pub fn build_consist(units: &[UnitSpec], pdct: u8, save_interval: Option<usize>) -> anyhow::Result<Consist> {
    let locos = units
        .iter()
        .map(|u| build_unit(u, save_interval))
        .collect::<anyhow::Result<Vec<_>>>()?;
    let p = if pdct == 0 {
        PowerDistributionControlType::RESGreedy(RESGreedy)
    } else {
        PowerDistributionControlType::Proportional(Proportional)
    };
    Ok(Consist::new(locos, save_interval, p))
}

// ---------------------------------------------------------------------------------------
// generators

fn r3(x: f64) -> f64 {
    (x * 1000.0).round() / 1000.0
}

fn gen_fracs(g: &mut Gen) -> Vec<f64> {
    let n = g.usize(2, 6);
    let first = if g.bool(0.5) { 0.01 } else { 0.0 };
    let mut cells: Vec<usize> = (0..n - 2).map(|_| g.usize(1, 19)).collect();
    cells.sort();
    cells.dedup();
    let mut v = vec![first];
    for c in cells {
        v.push(c as f64 / 20.0);
    }
    v.push(1.0);
    v
}

pub fn gen_fc(g: &mut Gen, base_pwr: f64) -> FcSpec {
    let pwr_max = (base_pwr * g.grid(0.9, 1.4, 10) / 1000.0).round() * 1000.0;
    let fracs = gen_fracs(g);
    let flat = g.bool(1.0 / 6.0);
    let e0 = g.grid(0.06, 0.6, 54);
    let etas: Vec<f64> = fracs.iter().map(|_| if flat { e0 } else { g.grid(0.06, 0.6, 54) }).collect();
    FcSpec {
        pwr_max,
        init: if g.bool(0.4) { 0.0 } else { (pwr_max * g.grid(0.05, 0.5, 9)).round() },
        lag: g.grid(2.0, 120.0, 59),
        fracs,
        etas,
        idle: g.grid(0.0, 80.0e3, 16),
    }
}

/// generator / drivetrain map: output fractions increasing, efficiencies in [0.6, 1.0] chosen
/// sequentially so that x_i/eta_i is strictly increasing (the constructors' precondition)
pub fn gen_map(g: &mut Gen, pwr_max: f64) -> MapSpec {
    let fracs = gen_fracs(g);
    let flat = g.bool(1.0 / 6.0);
    let mut etas: Vec<f64> = vec![];
    let e0 = if g.bool(0.15) { 1.0 } else { g.grid(0.6, 1.0, 40) };
    for (i, x) in fracs.iter().enumerate() {
        if flat || i == 0 {
            etas.push(e0);
            continue;
        }
        let prev_ratio = fracs[i - 1] / etas[i - 1];
        let hi = if prev_ratio > 0.0 { (x / prev_ratio * (1.0 - 1e-6)).min(1.0) } else { 1.0 };
        // round down to 3 decimals so the bound stays satisfied
        let hi = (hi * 1000.0).floor() / 1000.0;
        let hi = hi.max(0.6);
        let e = if g.bool(0.15) { hi } else { r3(g.f64(0.6, hi)) };
        etas.push(e.clamp(0.6, hi));
    }
    MapSpec { pwr_max: (pwr_max / 1000.0).round() * 1000.0, fracs, etas }
}

pub fn gen_res(g: &mut Gen, base_pwr: f64) -> ResSpec {
    let pwr_max = (base_pwr * g.grid(0.8, 1.3, 10) / 1000.0).round() * 1000.0;
    let min_soc = g.grid(0.0, 0.3, 30);
    let max_soc = g.grid(0.7, 1.0, 30);
    let lo_ramp = if g.bool(0.5) { None } else { Some(r3(min_soc + g.grid(0.02, 0.15, 13))) };
    let hi_ramp = if g.bool(0.5) { None } else { Some(r3(max_soc - g.grid(0.02, 0.15, 13))) };
    let nt = g.usize(1, 3);
    let ns = g.usize(2, 5);
    let nc = g.usize(2, 6);
    let axis = |g: &mut Gen, n: usize, lo: f64, hi: f64| -> Vec<f64> {
        let mut cells: Vec<usize> = (0..n).map(|_| g.usize(0, 40)).collect();
        cells.sort();
        cells.dedup();
        if cells.len() < 2 && n >= 2 {
            cells = vec![0, 40];
        }
        cells.iter().map(|c| r3(lo + (hi - lo) * *c as f64 / 40.0)).collect()
    };
    let temps = if nt == 1 { vec![23.0] } else { axis(g, nt, -10.0, 50.0) };
    let socs = axis(g, ns, 0.0, 1.0);
    let crates = axis(g, nc, -6.0, 6.0);
    let flat = g.bool(0.15);
    let e0 = g.grid(0.5, 1.0, 50).max(0.51);
    let values: Vec<Vec<Vec<f64>>> = temps
        .iter()
        .map(|_| {
            socs.iter()
                .map(|_| crates.iter().map(|_| if flat { e0 } else { g.grid(0.5, 1.0, 50).max(0.51) }).collect())
                .collect()
        })
        .collect();
    let mut s = ResSpec {
        pwr_max,
        capacity: 0.0,
        min_soc,
        max_soc,
        hi_ramp,
        lo_ramp,
        temps,
        socs,
        crates,
        values,
        temp: g.grid(-20.0, 60.0, 16),
        soc0: 0.0,
    };
    let cap = g.logf(0.2e9, 12.0e9);
    // capacity large enough that a 0.25 s step is inside the SOC-window bound
    s.capacity = 1.0;
    let need = 0.25 / s.dt_bound();
    s.capacity = (cap.max(need * 1.01) / 1.0e6).ceil() * 1.0e6;
    s.soc0 = match g.weighted(&[4, 1, 1, 2, 2]) {
        0 => r3(g.f64(min_soc, max_soc)),
        1 => min_soc,
        2 => max_soc,
        3 => r3(min_soc + g.f64(0.0, 1.0) * s.lo_width()),
        _ => r3(max_soc - g.f64(0.0, 1.0) * s.hi_width()),
    }
    .clamp(min_soc, max_soc);
    s
}

pub fn gen_unit(g: &mut Gen, force_kind: Option<bool>) -> UnitSpec {
    let bel = force_kind.unwrap_or_else(|| g.bool(0.45));
    let base = (g.grid(0.3e6, 6.0e6, 57) / 1000.0).round() * 1000.0;
    gen_unit_with_base(g, bel, base)
}

pub fn gen_unit_with_base(g: &mut Gen, bel: bool, base: f64) -> UnitSpec {
    let aux_offset = g.grid(0.0, 60.0e3, 12);
    let aux_coeff = g.grid(0.0, 0.02, 20);
    if bel {
        let res = gen_res(g, base);
        let k = g.grid(0.7, 1.4, 7);
        let edrv = gen_map(g, base * k);
        UnitSpec::Bel { res, edrv, aux_offset, aux_coeff }
    } else {
        let fc = gen_fc(g, base);
        let k = g.grid(0.7, 1.4, 7);
        let gen = gen_map(g, base * k);
        let k = g.grid(0.7, 1.4, 7);
        let edrv = gen_map(g, base * k);
        UnitSpec::Conv { fc, gen, edrv, aux_offset, aux_coeff }
    }
}

pub fn gen_units(g: &mut Gen, max_units: usize) -> Vec<UnitSpec> {
    let n = g.usize(1, max_units);
    (0..n).map(|_| gen_unit(g, None)).collect()
}

/// common time-step bound of a set of units (battery SOC-window bound), capped at 10 s
pub fn dt_max(units: &[UnitSpec]) -> f64 {
    let mut m: f64 = 10.0;
    for u in units {
        if let UnitSpec::Bel { res, .. } = u {
            m = m.min(res.dt_bound());
        }
    }
    m
}

#[derive(Serialize, Deserialize, Clone, Debug, PartialEq)]
pub struct StepSpec {
    pub dt: f64,
    /// 0 zero, 1 traction vs pwr_out_max, 2 regen vs pwr_regen_max, 3 braking vs dyn-brake
    /// capability / drivetrain rating, 4 absolute watts in `frac`
    pub kind: u8,
    pub frac: f64,
    pub engine_on: bool,
    /// stand-alone units: the aux load is switched off (`set_pwr_aux(Some(false))`) after the
    /// limits for the step were published and before the demand is applied
    #[serde(default)]
    pub aux_off_after_publish: bool,
}

pub const FRACS: [f64; 10] = [0.0, 0.25, 0.5, 0.75, 0.9, 0.999, 1.0, 1.0005, 1.002, 1.2];

pub fn gen_steps(g: &mut Gen, max_steps: usize, dt_max: f64, allow_engine_off: bool) -> Vec<StepSpec> {
    let n = g.usize(1, max_steps);
    let mut v = vec![];
    let fixed_dt = if g.bool(0.3) { Some(1.0f64.min(dt_max)) } else { None };
    for k in 0..n {
        let dt = fixed_dt.unwrap_or_else(|| {
            let lo = 0.1f64.min(dt_max);
            ((lo + (dt_max - lo) * g.f64(0.0, 1.0).powi(2)) * 1000.0).floor() / 1000.0
        });
        let dt = dt.max(0.05);
        let engine_on = !(allow_engine_off && g.bool(0.12));
        let kind = if !engine_on {
            // with the engine off a positive demand must be rejected (absolute watts: the
            // published traction limit is zero then)
            [0u8, 2, 3, 4][g.weighted(&[6, 2, 2, 1])]
        } else {
            [1u8, 0, 2, 3, 4][g.weighted(&[8, 1, 3, 3, 1])]
        };
        // over-limit requests are rare (they end the history when correctly rejected)
        let frac = if kind == 4 {
            (g.f64(-0.4e6, 0.6e6)).round()
        } else {
            let over = g.bool(0.05);
            let _ = (k, n);
            if over {
                FRACS[g.usize(8, 9)]
            } else {
                FRACS[g.weighted(&[2, 5, 5, 5, 4, 2, 2, 2])]
            }
        };
        v.push(StepSpec { dt, kind, frac, engine_on, aux_off_after_publish: false });
    }
    v
}
