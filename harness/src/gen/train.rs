//! D-TRAIN: car mixes, overrides, consist sized to the train, built through `TrainSimBuilder`
//! (the documented construction path).

use crate::engine::Gen;
use crate::gen::net_chain::{train_type, TrainParamSpec};
use crate::gen::powertrain::*;
use altrios_core::consist::Consist;
use altrios_core::consist::locomotive::{DummyLoco, Locomotive, PowertrainType};
use altrios_core::consist::{PowerDistributionControlType, RESGreedy};
use altrios_core::train::{InitTrainState, RailVehicle, TrainConfig, TrainSimBuilder};
use altrios_core::uc;
use serde::{Deserialize, Serialize};
use std::collections::HashMap;

#[derive(Serialize, Deserialize, Clone, Debug, PartialEq)]
pub struct CarSpec {
    pub name: String,
    pub n: u32,
    pub length: f64,
    pub axle_count: u8,
    pub brake_count: u8,
    pub mass_base: f64,
    pub mass_freight: f64,
    pub speed_max: f64,
    pub braking_ratio: f64,
    pub mass_rot_per_axle: f64,
    pub bearing_res_per_axle: f64,
    pub rolling_ratio: f64,
    pub davis_b: f64,
    pub cd_area: f64,
    pub curve_coeffs: (f64, f64, f64),
}

#[derive(Serialize, Deserialize, Clone, Debug, PartialEq)]
pub struct TrainSpec {
    pub cars: Vec<CarSpec>,
    pub train_type: u8,
    pub length_override: Option<f64>,
    pub mass_override: Option<f64>,
    /// None: real units; Some(()) is expressed by `dummy = true`
    pub dummy: bool,
    pub units: Vec<UnitSpec>,
    pub pdct: u8,
    pub init_time: f64,
    /// default hybrid locomotives appended to the generated units
    #[serde(default)]
    pub hybrids: usize,
    /// the consist is first created from its fuel-only units and then given the complete list
    /// through `set_loco_vec` (a consist object re-used for another composition)
    #[serde(default)]
    pub late_battery: bool,
    /// the train's consist runs with limit checking off (`set_assert_limits(false)` on the
    /// finished sim): levels must agree all the same
    #[serde(default)]
    pub consist_limits_off: bool,
}

impl CarSpec {
    pub fn build(&self) -> RailVehicle {
        RailVehicle {
            car_type: self.name.clone(),
            length: uc::M * self.length,
            axle_count: self.axle_count,
            brake_count: self.brake_count,
            mass_static_base: uc::KG * self.mass_base,
            mass_freight: uc::KG * self.mass_freight,
            speed_max: uc::MPS * self.speed_max,
            braking_ratio: uc::R * self.braking_ratio,
            mass_rot_per_axle: uc::KG * self.mass_rot_per_axle,
            bearing_res_per_axle: uc::N * self.bearing_res_per_axle,
            rolling_ratio: uc::R * self.rolling_ratio,
            davis_b: uc::SPM * self.davis_b,
            cd_area: uc::M2 * self.cd_area,
            curve_coeff_0: uc::R * self.curve_coeffs.0,
            curve_coeff_1: uc::R * self.curve_coeffs.1,
            curve_coeff_2: uc::R * self.curve_coeffs.2,
        }
    }
    pub fn mass(&self) -> f64 {
        self.mass_base + self.mass_freight
    }
}

pub const LOCO_MASS: f64 = 195_000.0;
pub const LOCO_FORCE_MAX: f64 = 667.2e3;

impl TrainSpec {
    pub fn n_cars(&self) -> u32 {
        self.cars.iter().map(|c| c.n).sum()
    }
    pub fn cars_mass(&self) -> f64 {
        self.cars.iter().map(|c| c.mass() * c.n as f64).sum()
    }
    pub fn towed_mass(&self) -> f64 {
        self.mass_override.unwrap_or_else(|| self.cars_mass())
    }
    pub fn length(&self) -> f64 {
        self.length_override.unwrap_or_else(|| self.cars.iter().map(|c| c.length * c.n as f64).sum())
    }
    pub fn consist_mass(&self) -> f64 {
        if self.dummy {
            0.0
        } else {
            LOCO_MASS * (self.units.len() + self.hybrids) as f64
        }
    }
    pub fn mass_static(&self) -> f64 {
        self.towed_mass() + self.consist_mass()
    }
    pub fn mass_rot(&self) -> f64 {
        self.cars.iter().map(|c| c.mass_rot_per_axle * c.n as f64 * c.axle_count as f64).sum()
    }
    pub fn mass_freight(&self) -> f64 {
        self.cars.iter().map(|c| c.mass_freight * c.n as f64).sum()
    }
    pub fn speed_max(&self) -> f64 {
        self.cars.iter().filter(|c| c.n > 0).map(|c| c.speed_max).fold(f64::INFINITY, f64::min)
    }
    pub fn axle_count(&self) -> u32 {
        self.cars.iter().map(|c| c.axle_count as u32 * c.n).sum()
    }
    pub fn brake_count(&self) -> u32 {
        self.cars.iter().map(|c| c.brake_count as u32 * c.n).sum()
    }
    /// the TrainParams the builder must derive (documented formulas of make_train_params)
    pub fn params(&self) -> TrainParamSpec {
        TrainParamSpec {
            length: self.length(),
            speed_max: self.speed_max(),
            towed_mass: self.towed_mass(),
            mass_per_brake: (self.towed_mass() + self.mass_rot()) / self.brake_count() as f64,
            axle_count: self.axle_count(),
            train_type: self.train_type,
            curve_coeffs: self.cars[0].curve_coeffs,
        }
    }
    // resistance coefficients, recomputed from the car list as make_train_sim_parts documents
    pub fn bearing_force(&self) -> f64 {
        self.cars.iter().map(|c| c.bearing_res_per_axle * c.axle_count as f64 * c.n as f64).sum()
    }
    pub fn rolling_ratio(&self) -> f64 {
        self.cars.iter().map(|c| c.rolling_ratio * c.mass() / self.towed_mass() * c.n as f64).sum()
    }
    pub fn davis_b(&self) -> f64 {
        self.cars.iter().map(|c| c.davis_b * c.mass() / self.towed_mass() * c.n as f64).sum()
    }
    pub fn cd_area(&self) -> f64 {
        self.cars.iter().map(|c| c.cd_area * c.n as f64).sum()
    }
    pub fn fric_brake_force_max(&self) -> f64 {
        9.801_548_494_963_14 * self.towed_mass() * self.cars.iter().map(|c| c.braking_ratio * c.n as f64).sum::<f64>()
            / self.n_cars() as f64
    }

    pub fn build_consist(&self, save_interval: Option<usize>) -> anyhow::Result<Consist> {
        let c = self.build_consist_direct(save_interval)?;
        if !self.late_battery || self.dummy {
            return Ok(c);
        }
        let all = c.loco_vec.clone();
        let fuel_only: Vec<Locomotive> = all.iter().filter(|l| l.reversible_energy_storage().is_none()).cloned().collect();
        if fuel_only.is_empty() || fuel_only.len() == all.len() {
            return Ok(c);
        }
        let mut c2 = Consist::new(fuel_only, save_interval, c.pdct.clone());
        // touching the count now is what a caller that asks for it would do
        let _ = c2.n_res_equipped();
        // through the setter, or (odd number of units) through the public field itself
        if all.len() % 2 == 0 {
            c2.set_loco_vec(all);
        } else {
            c2.loco_vec = all;
        }
        c2.set_save_interval(save_interval);
        Ok(c2)
    }

    fn build_consist_direct(&self, save_interval: Option<usize>) -> anyhow::Result<Consist> {
        if self.dummy {
            let mut l = Locomotive::default();
            l.loco_type = PowertrainType::DummyLoco(DummyLoco::default());
            // a dummy unit carries no mass (documented: derived mass 0)
            let v = serde_json::to_value(&l)?;
            let mut v = v;
            v["mass"] = serde_json::Value::Null;
            let mut l: Locomotive = serde_json::from_value(v)?;
            l.set_save_interval(save_interval);
            Ok(Consist::new(vec![l], save_interval, PowerDistributionControlType::RESGreedy(RESGreedy)))
        } else if self.hybrids == 0 {
            build_consist(&self.units, self.pdct, save_interval)
        } else {
            let mut c = build_consist(&self.units, self.pdct, save_interval)?;
            let mut v = c.loco_vec.clone();
            for _ in 0..self.hybrids {
                let mut l = Locomotive::default_hybrid_electric_loco();
                l.set_save_interval(save_interval);
                v.push(l);
            }
            c = Consist::new(v, save_interval, c.pdct.clone());
            Ok(c)
        }
    }

    pub fn build_config(&self) -> anyhow::Result<TrainConfig> {
        let mut n: HashMap<String, u32> = HashMap::new();
        for c in &self.cars {
            n.insert(c.name.clone(), c.n);
        }
        TrainConfig::new(
            self.cars.iter().map(|c| c.build()).collect(),
            n,
            train_type(self.train_type),
            self.length_override.map(|x| uc::M * x),
            self.mass_override.map(|x| uc::KG * x),
            None,
        )
    }

    pub fn build_builder(
        &self,
        save_interval: Option<usize>,
        od: Option<(&str, &str)>,
    ) -> anyhow::Result<TrainSimBuilder> {
        self.build_builder_init(save_interval, od, None)
    }

    pub fn build_builder_init(
        &self,
        save_interval: Option<usize>,
        od: Option<(&str, &str)>,
        init_speed: Option<f64>,
    ) -> anyhow::Result<TrainSimBuilder> {
        self.build_builder_init_at(save_interval, od, init_speed, 0.0)
    }

    pub fn build_builder_init_abs(
        &self,
        save_interval: Option<usize>,
        od: Option<(&str, &str)>,
        init_speed: Option<f64>,
        offset_extra: f64,
        offset_abs: Option<f64>,
    ) -> anyhow::Result<TrainSimBuilder> {
        match offset_abs {
            None => self.build_builder_init_at(save_interval, od, init_speed, offset_extra),
            Some(x) => Ok(TrainSimBuilder::new(
                "t".into(),
                self.build_config()?,
                self.build_consist(save_interval)?,
                od.map(|x| x.0.to_string()),
                od.map(|x| x.1.to_string()),
                Some(InitTrainState::new(Some(uc::S * self.init_time), Some(uc::M * x), init_speed.map(|v| uc::MPS * v))),
            )),
        }
    }

    /// `offset_extra` > 0: initial offset = train length + offset_extra
    pub fn build_builder_init_at(
        &self,
        save_interval: Option<usize>,
        od: Option<(&str, &str)>,
        init_speed: Option<f64>,
        offset_extra: f64,
    ) -> anyhow::Result<TrainSimBuilder> {
        Ok(TrainSimBuilder::new(
            "t".into(),
            self.build_config()?,
            self.build_consist(save_interval)?,
            od.map(|x| x.0.to_string()),
            od.map(|x| x.1.to_string()),
            Some(InitTrainState::new(
                Some(uc::S * self.init_time),
                if offset_extra > 0.0 { Some(uc::M * (self.length() + offset_extra)) } else { None },
                init_speed.map(|v| uc::MPS * v),
            )),
        ))
    }
}

fn r(x: f64, d: i32) -> f64 {
    Gen::round(x, d)
}

pub fn gen_car(g: &mut Gen, name: &str, n_max: u32) -> CarSpec {
    // shipped rolling stock perturbed +-30 %
    let loaded = g.bool(0.6);
    let k = |g: &mut Gen| g.grid(0.7, 1.3, 12);
    // 35 % of car types carry masses given in whole pounds (converted, so not whole
    // kilograms: sums over car types then depend on the order of addition in the last bits)
    let lb = if g.bool(0.35) { 0.45359237 } else { 1.0 };
    let mass_freight = if loaded { r(100.0e3 * k(g) / lb, 0) * lb } else { 0.0 };
    CarSpec {
        name: name.into(),
        n: g.int(1, n_max as i64) as u32,
        length: r(18.0 * k(g), 1),
        axle_count: [4u8, 4, 6, 8][g.weighted(&[4, 2, 1, 1])],
        brake_count: g.int(1, 2) as u8,
        mass_base: r(28.5e3 * k(g) / lb, 0) * lb,
        mass_freight,
        speed_max: g.grid(12.0, 35.0, 46),
        braking_ratio: r(if loaded { 0.11 } else { 0.25 } * k(g), 3),
        mass_rot_per_axle: r(750.0 * k(g), 0),
        bearing_res_per_axle: r(60.0 * k(g), 2),
        rolling_ratio: r(0.0015 * k(g), 6),
        davis_b: if g.bool(0.5) { 0.0 } else { r(g.f64(0.0, 2.0e-4), 7) },
        cd_area: r(4.0 * k(g), 3),
        curve_coeffs: if g.bool(0.75) {
            (r(0.056 * k(g), 4), r(0.4387579 * k(g), 4), r(0.01025485 * k(g), 5))
        } else {
            (0.0, 0.0, 0.0)
        },
    }
}

#[derive(Clone, Copy)]
pub struct TrainOpts {
    pub max_cars: u32,
    pub allow_dummy: bool,
    pub allow_overrides: bool,
    /// W per kg of train (1 hp/ton ~ 0.82 W/kg)
    pub min_w_per_kg: f64,
    pub max_w_per_kg: f64,
}

impl Default for TrainOpts {
    fn default() -> Self {
        Self { max_cars: 120, allow_dummy: false, allow_overrides: true, min_w_per_kg: 0.5, max_w_per_kg: 2.5 }
    }
}

pub fn gen_train(g: &mut Gen, o: &TrainOpts) -> TrainSpec {
    let nt = g.weighted(&[10, 6, 3, 2, 1]) + 1;
    let per = (o.max_cars / nt as u32).max(1);
    let mut cars = vec![];
    for t in 0..nt {
        let mut c = gen_car(g, ["Bulk", "Manifest", "Intermodal", "Autorack", "Tank"][t], per);
        if t == 0 {
            c.n = c.n.max(3.min(per));
        }
        cars.push(c);
        // a car type may be listed without any car of it being in the train (count 0): it must
        // not influence length, mass, speed or resistance; inserted before or after the type
        // just generated
        if g.bool(0.08) {
            let mut z = gen_car(g, ["Hopper", "Gondola", "Flat", "Reefer", "Caboose"][t], 5);
            z.n = 0;
            z.speed_max = g.grid(6.0, 12.0, 12);
            if g.bool(0.5) {
                let at = cars.len() - 1;
                cars.insert(at, z);
            } else {
                cars.push(z);
            }
        }
    }
    let train_type = g.int(1, 3) as u8;
    let mut spec = TrainSpec {
        cars,
        train_type,
        length_override: None,
        mass_override: None,
        dummy: false,
        units: vec![],
        pdct: 0,
        init_time: 0.0,
        hybrids: 0,
        late_battery: false,
        consist_limits_off: false,
    };
    if o.allow_overrides {
        if g.bool(0.15) {
            spec.length_override = Some(r(spec.length() * g.grid(0.8, 1.3, 10), 0).max(20.0));
        }
        if g.bool(0.15) {
            spec.mass_override = Some(r(spec.cars_mass() * g.grid(0.8, 1.3, 10), 0));
        }
    }
    spec.init_time = if g.bool(0.5) { 0.0 } else { r(g.f64(0.0, 3600.0), 0) };
    spec.dummy = o.allow_dummy && g.bool(0.1);
    if !spec.dummy {
        let w_per_kg = g.f64(o.min_w_per_kg, o.max_w_per_kg);
        let target = (spec.towed_mass() * w_per_kg).max(0.6e6);
        let n_units = ((target / 3.0e6).ceil() as usize).clamp(1, 8);
        let extra = if g.bool(0.3) && n_units < 8 { 1 } else { 0 };
        let n_units = n_units + extra;
        let base = (target / n_units as f64).clamp(0.3e6, 6.0e6);
        for _ in 0..n_units {
            let b = r(base * g.grid(0.8, 1.2, 8) / 1000.0, 0) * 1000.0;
            let bel = g.bool(0.35);
            spec.units.push(gen_unit_with_base(g, bel, b));
        }
        // with interpolated maps a request exactly at the published limit is often rejected
        // (limit published through the input axis, solved through the output axis); constant
        // maps keep long runs alive
        if g.bool(0.75) {
            spec.units.iter_mut().for_each(|u| u.flatten_maps());
        }
        // generator / drivetrain ratings at least as large as the engine's in most trains, so
        // the consist can actually deliver its published limit
        if g.bool(0.7) {
            spec.units.iter_mut().for_each(|u| u.harmonise_ratings());
        }
        spec.pdct = g.int(0, 1) as u8;
    }
    spec
}
