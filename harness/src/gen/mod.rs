pub mod net_chain;
