pub mod net_chain;
pub mod powertrain;
pub mod train;
