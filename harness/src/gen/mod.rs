pub mod net_chain;
pub mod net_corridor;
pub mod powertrain;
pub mod train;
