//! D-NET-CORRIDOR: bidirectional corridor of alternating single-track stages and passing
//! sidings (two parallel tracks).  Every physical track segment is a forward link and its
//! flipped twin, as in the shipped `simple_corridor_network.yaml`.  Terminal stages are
//! two-track yards in ~70 % of cases (without them the dispatcher serialises opposing trains
//! end to end and no meet ever happens).

use crate::engine::Gen;
use altrios_core::track::*;
use altrios_core::uc;
use serde::{Deserialize, Serialize};

#[derive(Serialize, Deserialize, Clone, Debug, PartialEq)]
pub struct SegSpec {
    pub length: f64,
    pub speed: f64,
    /// interior elevation break (fraction of length, extra rise) or none
    pub bump: Option<(f64, f64)>,
}

#[derive(Serialize, Deserialize, Clone, Debug, PartialEq)]
pub struct StageSpec {
    pub main: SegSpec,
    pub side: Option<SegSpec>,
    /// elevation change over the stage (both tracks)
    pub rise: f64,
}

#[derive(Serialize, Deserialize, Clone, Debug, PartialEq)]
pub struct CorridorSpec {
    pub stages: Vec<StageSpec>,
    /// declare the two tracks of siding stage `k` mutually exclusive (lockout) — models a
    /// siding whose clearance points foul the main; symmetric declaration
    pub lockout_stage: Option<usize>,
    /// a branch line leaving the main line at the east end of single-track stage `at`
    /// (Y-junction); its own stages run west -> east to a second eastern terminal
    #[serde(default)]
    pub branch: Option<BranchSpec>,
    /// the first branch segment crosses both tracks of the lockout siding on the level (the
    /// siding lies east of the junction, so no route uses both): the three physical segments
    /// are declared mutually exclusive pairwise — a lockout list then names links that also
    /// lock out each other
    #[serde(default)]
    pub lockout_crossing: bool,
    /// a third track that leaves the main line at the east end of single-track stage `from`
    /// and rejoins it at the west end of single-track stage `to`, passing the stages in
    /// between (which hold at least one siding): stages `from`, `from + 1`, `to - 1`, `to` are
    /// single track, so no switch points coincide
    #[serde(default)]
    pub bypass: Option<BypassSpec>,
}

#[derive(Serialize, Deserialize, Clone, Debug, PartialEq)]
pub struct BypassSpec {
    pub from: usize,
    pub to: usize,
    pub seg: SegSpec,
}

#[derive(Serialize, Deserialize, Clone, Debug, PartialEq)]
pub struct BranchSpec {
    pub at: usize,
    pub stages: Vec<StageSpec>,
}

#[derive(Clone, Debug)]
pub struct Corridor {
    pub links: Vec<Link>,
    /// forward link index of (stage, track 0 main / 1 side); branch stages follow the main ones
    pub fwd: Vec<Vec<u32>>,
    pub rev: Vec<Vec<u32>>,
    pub n_phys: usize,
    /// number of main-line stages (fwd[..n_main] main line, fwd[n_main..] branch)
    pub n_main: usize,
    /// segment spec per link index (both directions)
    pub seg_of_link: Vec<Option<SegSpec>>,
    /// forward and reverse link of the bypass track
    pub bypass_links: Option<(u32, u32)>,
}

fn link_geom(seg: &SegSpec, e0: f64, rise: f64, reverse: bool) -> (Vec<Elev>, Vec<Heading>, SpeedSet) {
    let l = seg.length;
    let mut pts: Vec<(f64, f64)> = vec![(0.0, e0)];
    if let Some((f, extra)) = seg.bump {
        let x = (l * f).round();
        if x > 0.0 && x < l {
            pts.push((x, e0 + rise * f + extra));
        }
    }
    pts.push((l, e0 + rise));
    if reverse {
        pts = pts.iter().rev().map(|(x, e)| (l - x, *e)).collect();
    }
    let elevs = pts.iter().map(|(x, e)| Elev { offset: uc::M * *x, elev: uc::M * *e }).collect();
    let headings = vec![];
    let speed_set = SpeedSet {
        speed_limits: vec![SpeedLimit { offset_start: uc::M * 0.0, offset_end: uc::M * l, speed: uc::MPS * seg.speed }],
        speed_params: vec![],
        is_head_end: false,
    };
    (elevs, headings, speed_set)
}

impl CorridorSpec {
    pub fn n_sidings_interior(&self) -> usize {
        let n = self.stages.len();
        self.stages.iter().enumerate().filter(|(i, s)| s.side.is_some() && *i != 0 && *i + 1 != n).count()
    }
    pub fn total_main_length(&self) -> f64 {
        self.stages.iter().map(|s| s.main.length).sum()
    }
    pub fn all_stages(&self) -> Vec<&StageSpec> {
        self.stages.iter().chain(self.branch.iter().flat_map(|b| b.stages.iter())).collect()
    }
    pub fn build(&self) -> Corridor {
        let n = self.stages.len();
        let all = self.all_stages();
        // physical segments in order: stage 0 main, stage 0 side?, stage 1 main, ...; branch last
        let mut fwd: Vec<Vec<u32>> = vec![];
        let mut k = 0u32;
        for s in &all {
            let mut v = vec![];
            k += 1;
            v.push(k);
            if s.side.is_some() {
                k += 1;
                v.push(k);
            }
            fwd.push(v);
        }
        let bypass = self.bypass.as_ref().filter(|b| b.from + 1 < b.to && b.to < n);
        if bypass.is_some() {
            k += 1;
        }
        let p = k;
        let rev: Vec<Vec<u32>> = fwd.iter().map(|v| v.iter().map(|i| i + p).collect()).collect();
        let mut links: Vec<Link> = vec![Link::default(); 2 * p as usize + 1];
        let mut seg_of_link: Vec<Option<SegSpec>> = vec![None; 2 * p as usize + 1];
        let li = |i: u32| LinkIdx::new(i);
        let mut e0 = 100.0;
        // elevation at the junction, where the branch starts
        let e_junction: f64 = 100.0 + self.branch.as_ref().map(|b| self.stages[..=b.at].iter().map(|s| s.rise).sum::<f64>()).unwrap_or(0.0);
        for (si, s) in all.iter().enumerate() {
            if si == n {
                e0 = e_junction;
            }
            for (t, seg) in std::iter::once(&s.main).chain(s.side.iter()).enumerate() {
                for reverse in [false, true] {
                    let idx = if reverse { rev[si][t] } else { fwd[si][t] };
                    let (elevs, headings, speed_set) = link_geom(seg, e0, s.rise, reverse);
                    let l = &mut links[idx as usize];
                    l.idx_curr = li(idx);
                    l.idx_flip = li(if reverse { fwd[si][t] } else { rev[si][t] });
                    l.length = uc::M * seg.length;
                    l.elevs = elevs;
                    l.headings = headings;
                    l.speed_set = Some(speed_set);
                    seg_of_link[idx as usize] = Some(seg.clone());
                }
            }
            e0 += s.rise;
        }
        // connections: consecutive stages of the main line, and of the branch
        let n_all = all.len();
        for si in 0..n_all {
            // forward: stage si -> si+1 (not across the main-line / branch seam)
            if si + 1 < n_all && si + 1 != n {
                let (a, b) = (&fwd[si], &fwd[si + 1]);
                for x in a {
                    links[*x as usize].idx_next = li(b[0]);
                    if b.len() > 1 {
                        links[*x as usize].idx_next_alt = li(b[1]);
                    }
                }
                for y in b {
                    links[*y as usize].idx_prev = li(a[0]);
                    if a.len() > 1 {
                        links[*y as usize].idx_prev_alt = li(a[1]);
                    }
                }
                // reverse: stage si+1 -> si
                let (a, b) = (&rev[si + 1], &rev[si]);
                for x in a {
                    links[*x as usize].idx_next = li(b[0]);
                    if b.len() > 1 {
                        links[*x as usize].idx_next_alt = li(b[1]);
                    }
                }
                for y in b {
                    links[*y as usize].idx_prev = li(a[0]);
                    if a.len() > 1 {
                        links[*y as usize].idx_prev_alt = li(a[1]);
                    }
                }
            }
        }
        // Y-junction: east end of main stage `at` also leads to the first branch stage
        if let Some(b) = &self.branch {
            if n_all > n {
                let a = fwd[b.at][0];
                let ar = rev[b.at][0];
                let bf = fwd[n][0];
                let br = rev[n][0];
                links[a as usize].idx_next_alt = li(bf);
                links[bf as usize].idx_prev = li(a);
                links[br as usize].idx_next = li(ar);
                links[ar as usize].idx_prev_alt = li(br);
            }
        }
        // bypass track: east end of stage `from` -> west end of stage `to`
        let mut bypass_links = None;
        if let Some(b) = bypass {
            let (bf, br) = (p, 2 * p);
            let e_from: f64 = 100.0 + self.stages[..=b.from].iter().map(|s| s.rise).sum::<f64>();
            let rise: f64 = self.stages[b.from + 1..b.to].iter().map(|s| s.rise).sum();
            for reverse in [false, true] {
                let idx = if reverse { br } else { bf };
                let (elevs, headings, speed_set) = link_geom(&b.seg, e_from, rise, reverse);
                let l = &mut links[idx as usize];
                l.idx_curr = li(idx);
                l.idx_flip = li(if reverse { bf } else { br });
                l.length = uc::M * b.seg.length;
                l.elevs = elevs;
                l.headings = headings;
                l.speed_set = Some(speed_set);
                seg_of_link[idx as usize] = Some(b.seg.clone());
            }
            let (a, ar) = (fwd[b.from][0], rev[b.from][0]);
            let (t, tr) = (fwd[b.to][0], rev[b.to][0]);
            links[a as usize].idx_next_alt = li(bf);
            links[bf as usize].idx_prev = li(a);
            links[bf as usize].idx_next = li(t);
            links[t as usize].idx_prev_alt = li(bf);
            links[tr as usize].idx_next_alt = li(br);
            links[br as usize].idx_prev = li(tr);
            links[br as usize].idx_next = li(ar);
            links[ar as usize].idx_prev_alt = li(br);
            bypass_links = Some((bf, br));
        }
        if let Some(k) = self.lockout_stage {
            if k < n && fwd[k].len() == 2 {
                let (m, s) = (fwd[k][0], fwd[k][1]);
                let (mr, sr) = (rev[k][0], rev[k][1]);
                // each track locks out both directions of the other track
                links[m as usize].link_idxs_lockout = vec![li(s), li(sr)];
                links[mr as usize].link_idxs_lockout = vec![li(s), li(sr)];
                links[s as usize].link_idxs_lockout = vec![li(m), li(mr)];
                links[sr as usize].link_idxs_lockout = vec![li(m), li(mr)];
                if let (true, Some(b)) = (self.lockout_crossing, &self.branch) {
                    if b.at < k && n_all > n {
                        let (bf, br) = (fwd[n][0], rev[n][0]);
                        for x in [m, mr, s, sr] {
                            links[x as usize].link_idxs_lockout.extend([li(bf), li(br)]);
                        }
                        links[bf as usize].link_idxs_lockout = vec![li(m), li(mr), li(s), li(sr)];
                        links[br as usize].link_idxs_lockout = vec![li(m), li(mr), li(s), li(sr)];
                    }
                }
            }
        }
        Corridor { links, fwd, rev, n_phys: p as usize, n_main: n, seg_of_link, bypass_links }
    }
}

#[derive(Clone, Copy, Debug)]
pub struct CorridorOpts {
    pub max_stages: usize,
    pub min_seg: f64,
    pub max_seg: f64,
    pub min_terminal: f64,
    pub p_yard: f64,
    pub p_lockout: f64,
    pub p_branch: f64,
    /// probability of a corridor whose interior stages are short (0.6-1.4 km): a train that
    /// ends its run on an interior stage then straddles several segments
    pub p_short_ends: f64,
    /// probability that the two easternmost stages are short single-track segments (0.6-1.2 km):
    /// an eastbound train then ends its run straddling three or more segments; westbound trains
    /// of the main line need an intermediate origin there
    pub p_short_east: f64,
    /// probability of a bypass track around an interior siding (see `CorridorSpec::bypass`)
    pub p_bypass: f64,
}

impl Default for CorridorOpts {
    fn default() -> Self {
        Self { max_stages: 7, min_seg: 1500.0, max_seg: 20000.0, min_terminal: 2500.0, p_yard: 0.7, p_lockout: 0.0, p_branch: 0.0, p_short_ends: 0.0, p_short_east: 0.0, p_bypass: 0.0 }
    }
}

fn gen_seg(g: &mut Gen, lo: f64, hi: f64, speed_lo: f64) -> SegSpec {
    let length = (g.logf(lo, hi) / 100.0).round() * 100.0;
    SegSpec {
        length,
        speed: g.grid(speed_lo, 25.0, ((25.0 - speed_lo) / 2.5) as usize),
        bump: if g.bool(0.3) { Some((g.grid(0.2, 0.8, 6), g.grid(-3.0, 3.0, 12))) } else { None },
    }
}

pub fn gen_corridor(g: &mut Gen, o: &CorridorOpts) -> CorridorSpec {
    // a single-stage corridor (origin segment == destination segment) is rejected by
    // make_est_times with a descriptive error; keep a small share of it
    let n = if g.bool(0.03) { 1 } else { g.usize(2, o.max_stages.max(2)) };
    let mut stages: Vec<StageSpec> = vec![];
    let short_ends = o.p_short_ends > 0.0 && n >= 4 && g.bool(o.p_short_ends);
    for i in 0..n {
        let terminal = i == 0 || i + 1 == n;
        let prev_siding = stages.last().map(|s: &StageSpec| s.side.is_some()).unwrap_or(false);
        // two sidings may never abut (coincident switch points)
        let siding = !prev_siding && if terminal { g.bool(o.p_yard) } else { g.bool(0.55) };
        let near_end = !terminal;
        let (lo, hi) = if short_ends && near_end { (600.0, 1400.0) } else { (if terminal { o.min_terminal } else { o.min_seg }, 0.0) };
        let main = gen_seg(g, lo, if hi > 0.0 { hi } else { o.max_seg.max(lo * 1.5) }, 10.0);
        let side = if siding {
            let mut s = gen_seg(g, lo, (main.length * 1.3).max(lo * 1.2), 7.5);
            // a siding is usually close to the main's length
            if g.bool(0.7) {
                s.length = ((main.length * g.grid(0.9, 1.1, 4)) / 100.0).round() * 100.0;
            }
            s.length = s.length.max(lo);
            Some(s)
        } else {
            None
        };
        let max_rise = 0.008 * main.length.min(side.as_ref().map(|s| s.length).unwrap_or(main.length));
        let rise = if g.bool(0.3) { 0.0 } else { (g.f64(-max_rise, max_rise) * 10.0).round() / 10.0 };
        stages.push(StageSpec { main, side, rise });
    }
    if o.p_short_east > 0.0 && n >= 4 && g.bool(o.p_short_east) {
        for st in stages.iter_mut().skip(n - 2) {
            st.side = None;
            st.main.length = (g.f64(400.0, 1000.0) / 100.0).round() * 100.0;
            st.main.bump = None;
            let max_rise = 0.008 * st.main.length;
            st.rise = st.rise.clamp(-max_rise, max_rise);
            st.rise = (st.rise * 10.0).round() / 10.0;
        }
    }
    // bypass track around an interior siding k: short single-track stages are inserted on both
    // sides of the siding where needed, so that the stages at both ends of the bypass and their
    // inner neighbours are single track
    let mut bypass = None;
    if o.p_bypass > 0.0 && g.bool(o.p_bypass) {
        let inner: Vec<usize> = (1..stages.len().saturating_sub(1)).filter(|i| stages[*i].side.is_some()).collect();
        if !inner.is_empty() {
            let mut k = inner[g.idx(inner.len())];
            let switch_stage = |g: &mut Gen| {
                let length = (g.f64(300.0, 2500.0) / 100.0).round() * 100.0;
                StageSpec { main: SegSpec { length, speed: g.grid(10.0, 25.0, 6), bump: None }, side: None, rise: 0.0 }
            };
            // west side: stages k-2, k-1 single
            if k < 2 || stages[k - 2].side.is_some() {
                let st = switch_stage(g);
                stages.insert(k, st);
                k += 1;
            }
            // east side: stages k+1, k+2 single
            if k + 2 >= stages.len() || stages[k + 2].side.is_some() {
                let st = switch_stage(g);
                stages.insert(k + 1, st);
            }
            let (from, to) = (k - 2, k + 2);
            let between: f64 = stages[from + 1..to].iter().map(|s| s.main.length).sum();
            let length = ((between * g.grid(1.0, 1.3, 6)) / 100.0).round() * 100.0;
            bypass = Some(BypassSpec { from, to, seg: SegSpec { length, speed: g.grid(7.5, 25.0, 7), bump: None } });
        }
    }
    let by_conflict = |i: usize| bypass.as_ref().map(|b| i + 1 == b.from || i == b.from || i + 1 == b.to || i == b.to).unwrap_or(false);
    let sidings: Vec<usize> = stages.iter().enumerate().filter(|(_, s)| s.side.is_some()).map(|(i, _)| i).collect();
    let lockout_stage = if !sidings.is_empty() && g.bool(o.p_lockout) { Some(sidings[g.idx(sidings.len())]) } else { None };
    // Y-junction between two consecutive single-track stages (no coincident switch points)
    let spots: Vec<usize> = (0..stages.len().saturating_sub(1)).filter(|i| stages[*i].side.is_none() && stages[*i + 1].side.is_none() && !by_conflict(*i)).collect();
    let branch = if o.p_branch > 0.0 && !spots.is_empty() && g.bool(o.p_branch) {
        let at = spots[g.idx(spots.len())];
        let nb = g.usize(1, 2);
        let mut bs = vec![];
        for i in 0..nb {
            let last = i + 1 == nb;
            let lo = if last { o.min_terminal } else { o.min_seg };
            let main = gen_seg(g, lo, o.max_seg.max(lo * 1.5), 10.0);
            // first branch stage single (the junction is its west end); the last may be a yard
            let side = if last && i > 0 && g.bool(o.p_yard) {
                let mut sd = gen_seg(g, lo, (main.length * 1.3).max(lo * 1.2), 7.5);
                sd.length = sd.length.max(lo);
                Some(sd)
            } else {
                None
            };
            let max_rise = 0.008 * main.length.min(side.as_ref().map(|x| x.length).unwrap_or(main.length));
            let rise = if g.bool(0.3) { 0.0 } else { (g.f64(-max_rise, max_rise) * 10.0).round() / 10.0 };
            bs.push(StageSpec { main, side, rise });
        }
        Some(BranchSpec { at, stages: bs })
    } else {
        None
    };
    let lockout_crossing = match (lockout_stage, &branch) {
        (Some(k), Some(b)) if b.at < k => g.bool(0.85),
        _ => false,
    };
    CorridorSpec { stages, lockout_stage, branch, lockout_crossing, bypass }
}
