//! D-NET-CHAIN: a chain of 1..n links (plus optional alternate branch links used for
//! contiguity tests) with elevation / heading / catenary / speed-restriction data, and the
//! train parameters that gate restrictions.  Everything is constructed, nothing filtered; all
//! lengths and offsets are whole metres (or tenths) so the JSON text is exact.

use crate::engine::Gen;
use altrios_core::track::*;
use altrios_core::{si, uc};
use serde::{Deserialize, Serialize};
use std::collections::HashMap;

#[derive(Serialize, Deserialize, Clone, Debug, PartialEq)]
pub struct ParamSpec {
    pub val: f64,
    /// 3 MassTotal, 4 MassPerBrake, 5 AxleCount
    pub kind: u8,
    /// 1 Eq, 2 Gt, 3 Lt, 4 Ge, 5 Le
    pub cmp: u8,
}

#[derive(Serialize, Deserialize, Clone, Debug, PartialEq)]
pub struct SetSpec {
    pub train_type: u8,
    pub head_end: bool,
    pub params: Vec<ParamSpec>,
    /// (start, end, speed)
    pub limits: Vec<(f64, f64, f64)>,
}

#[derive(Serialize, Deserialize, Clone, Debug, PartialEq)]
pub struct LinkSpec {
    pub length: f64,
    pub elevs: Vec<(f64, f64)>,
    pub headings: Vec<(f64, f64)>,
    /// (start, end, power W)
    pub cats: Vec<(f64, f64, f64)>,
    /// true: `speed_set: Some(sets[0])`; false: `speed_sets` map of all `sets`
    pub single: bool,
    pub sets: Vec<SetSpec>,
    /// optional coordinates on the heading points: 0 none, 1 latitude and longitude, 2 longitude
    /// only, 3 latitude only
    #[serde(default)]
    pub coords: u8,
}

#[derive(Serialize, Deserialize, Clone, Debug, PartialEq)]
pub struct TrainParamSpec {
    pub length: f64,
    pub speed_max: f64,
    pub towed_mass: f64,
    pub mass_per_brake: f64,
    pub axle_count: u32,
    pub train_type: u8,
    pub curve_coeffs: (f64, f64, f64),
}

pub fn train_type(t: u8) -> TrainType {
    match t {
        1 => TrainType::Freight,
        2 => TrainType::Passenger,
        3 => TrainType::Intermodal,
        4 => TrainType::HighSpeedPassenger,
        5 => TrainType::TiltTrain,
        6 => TrainType::Commuter,
        _ => TrainType::None,
    }
}

impl TrainParamSpec {
    pub fn build(&self) -> TrainParams {
        TrainParams {
            length: uc::M * self.length,
            speed_max: uc::MPS * self.speed_max,
            towed_mass_static: uc::KG * self.towed_mass,
            mass_per_brake: uc::KG * self.mass_per_brake,
            axle_count: self.axle_count,
            train_type: train_type(self.train_type),
            curve_coeff_0: uc::R * self.curve_coeffs.0,
            curve_coeff_1: uc::R * self.curve_coeffs.1,
            curve_coeff_2: uc::R * self.curve_coeffs.2,
        }
    }
}

impl ParamSpec {
    pub fn build(&self) -> SpeedParam {
        SpeedParam {
            limit_val: self.val,
            limit_type: match self.kind {
                3 => LimitType::MassTotal,
                4 => LimitType::MassPerBrake,
                _ => LimitType::AxleCount,
            },
            compare_type: match self.cmp {
                1 => CompareType::TpEqualRp,
                2 => CompareType::TpGreaterThanRp,
                3 => CompareType::TpLessThanRp,
                4 => CompareType::TpGreaterThanEqualRp,
                _ => CompareType::TpLessThanEqualRp,
            },
        }
    }
    /// reference semantics of the gate, written from the enum documentation
    pub fn applies(&self, tp: &TrainParamSpec) -> bool {
        let (t, r) = match self.kind {
            3 => (tp.towed_mass, self.val),
            4 => (tp.mass_per_brake, self.val),
            _ => (tp.axle_count as f64, (self.val as u32) as f64),
        };
        match self.cmp {
            1 => t == r,
            2 => t > r,
            3 => t < r,
            4 => t >= r,
            _ => t <= r,
        }
    }
}

impl SetSpec {
    pub fn build(&self) -> SpeedSet {
        SpeedSet {
            speed_limits: self
                .limits
                .iter()
                .map(|(a, b, s)| SpeedLimit {
                    offset_start: uc::M * *a,
                    offset_end: uc::M * *b,
                    speed: uc::MPS * *s,
                })
                .collect(),
            speed_params: self.params.iter().map(|p| p.build()).collect(),
            is_head_end: self.head_end,
        }
    }
    pub fn applies(&self, tp: &TrainParamSpec) -> bool {
        self.params.iter().all(|p| p.applies(tp))
    }
}

impl LinkSpec {
    /// the set that governs a train of the given type on this link (None: lookup fails)
    pub fn set_for(&self, tt: u8) -> Option<&SetSpec> {
        if self.single {
            self.sets.first()
        } else {
            self.sets.iter().find(|s| s.train_type == tt)
        }
    }
}

/// Build the network for a chain `1 -> 2 -> … -> n` (index 0 is the dummy link).
pub fn build_chain(links: &[LinkSpec]) -> Vec<Link> {
    let n = links.len();
    let mut out = vec![Link::default()];
    for (i, l) in links.iter().enumerate() {
        let idx = i + 1;
        let mut speed_sets: HashMap<TrainType, SpeedSet> = HashMap::new();
        let mut speed_set = None;
        if l.single {
            speed_set = l.sets.first().map(|s| s.build());
        } else {
            for s in &l.sets {
                speed_sets.insert(train_type(s.train_type), s.build());
            }
        }
        out.push(Link {
            idx_curr: LinkIdx::new(idx as u32),
            idx_flip: LinkIdx::default(),
            idx_next: if idx < n { LinkIdx::new(idx as u32 + 1) } else { LinkIdx::default() },
            idx_next_alt: LinkIdx::default(),
            idx_prev: if idx > 1 { LinkIdx::new(idx as u32 - 1) } else { LinkIdx::default() },
            idx_prev_alt: LinkIdx::default(),
            osm_id: None,
            length: uc::M * l.length,
            elevs: l.elevs.iter().map(|(o, e)| Elev { offset: uc::M * *o, elev: uc::M * *e }).collect(),
            headings: l
                .headings
                .iter()
                .map(|(o, h)| Heading {
                    offset: uc::M * *o,
                    heading: uc::RAD * *h,
                    // five decimals: short enough to survive JSON text exactly
                    lat: if l.coords == 1 || l.coords == 3 { Some(((47.5 + *o * 1.0e-5) * 1.0e5).round() / 1.0e5) } else { None },
                    lon: if l.coords == 1 || l.coords == 2 { Some(((-92.5 - *o * 1.3e-5) * 1.0e5).round() / 1.0e5) } else { None },
                })
                .collect(),
            speed_sets,
            speed_set,
            cat_power_limits: l
                .cats
                .iter()
                .map(|(a, b, p)| CatPowerLimit {
                    offset_start: uc::M * *a,
                    offset_end: uc::M * *b,
                    power_limit: uc::W * *p,
                    district_id: None,
                })
                .collect(),
            link_idxs_lockout: vec![],
        });
    }
    out
}

#[derive(Clone, Copy, Debug)]
pub struct ChainOpts {
    pub max_links: usize,
    pub min_len: f64,
    pub max_len: f64,
    pub max_restr: usize,
    pub geometry: bool,
    pub max_grade: f64,
    pub gates: bool,
    pub multi_type: bool,
    /// weights of (short, medium, long) link lengths
    pub len_weights: [u32; 3],
}

impl Default for ChainOpts {
    fn default() -> Self {
        Self {
            max_links: 6,
            min_len: 50.0,
            max_len: 12000.0,
            max_restr: 7,
            geometry: true,
            max_grade: 0.02,
            gates: true,
            multi_type: true,
            len_weights: [3, 4, 2],
        }
    }
}

pub fn gen_train_params(g: &mut Gen) -> TrainParamSpec {
    let cars = g.int(3, 120) as f64;
    let car_mass = g.grid(30.0e3, 130.0e3, 100);
    TrainParamSpec {
        length: g.grid(20.0, 3000.0, 298),
        speed_max: g.grid(5.0, 40.0, 70),
        towed_mass: cars * car_mass,
        mass_per_brake: car_mass,
        axle_count: (cars as u32) * 4,
        train_type: g.int(1, 3) as u8,
        curve_coeffs: if g.bool(0.7) {
            (g.grid(0.0, 0.01, 20), g.grid(0.0, 0.01, 20), g.grid(0.0, 0.002, 20))
        } else {
            (0.0, 0.0, 0.0)
        },
    }
}

fn gen_length(g: &mut Gen, o: &ChainOpts) -> f64 {
    let v = match g.weighted(&o.len_weights) {
        0 => g.int(o.min_len as i64, (o.min_len * 4.0).min(o.max_len) as i64) as f64,
        1 => g.int(200.min(o.max_len as i64), 3000.min(o.max_len as i64)) as f64,
        _ => g.int(3000.min(o.max_len as i64), o.max_len as i64) as f64,
    };
    v.max(o.min_len)
}

/// sorted unique interior offsets on a 1/10-of-length grid
fn gen_offsets(g: &mut Gen, length: f64, max_pts: usize) -> Vec<f64> {
    let k = g.usize(0, max_pts);
    let mut v: Vec<f64> = vec![0.0];
    let mut cells: Vec<usize> = (0..k).map(|_| g.usize(1, 19)).collect();
    cells.sort();
    cells.dedup();
    for c in cells {
        v.push((length * c as f64 / 20.0 * 10.0).round() / 10.0);
    }
    v.push(length);
    v.dedup();
    v
}

pub fn gen_set(g: &mut Gen, length: f64, tp: &TrainParamSpec, tt: u8, o: &ChainOpts) -> SetSpec {
    let n = g.usize(1, o.max_restr.max(1));
    let mut limits: Vec<(f64, f64, f64)> = vec![];
    for _ in 0..n {
        // zero-length restrictions are accepted by validation; rare, labelled by the checks
        let (a, b) = if g.bool(0.005) {
            let a = g.usize(0, 10);
            (a, a)
        } else {
            let a = g.usize(0, 9);
            (a, g.usize(a + 1, 10))
        };
        // a negative speed is a valid restriction whose magnitude is what gets enforced (the
        // sign survives in the profile); 5 % of the restrictions carry one
        let s = g.grid(2.0, 35.0, 66) * if g.bool(0.05) { -1.0 } else { 1.0 };
        let r = |c: usize| (length * c as f64 / 10.0 * 10.0).round() / 10.0;
        limits.push((r(a), r(b), s));
    }
    limits.sort_by(|x, y| x.partial_cmp(y).unwrap());
    limits.dedup_by(|x, y| x.0 == y.0 && x.1 == y.1);
    let mut params = vec![];
    if o.gates {
        let np = g.weighted(&[6, 2, 1]);
        for _ in 0..np {
            let kind = g.int(3, 5) as u8;
            let base = match kind {
                3 => tp.towed_mass,
                4 => tp.mass_per_brake,
                _ => tp.axle_count as f64,
            };
            let val = match g.weighted(&[2, 2, 2]) {
                0 => base,
                1 => (base * 0.5).floor(),
                _ => (base * 2.0).floor(),
            };
            params.push(ParamSpec { val, kind, cmp: g.int(1, 5) as u8 });
        }
        params.dedup();
    }
    SetSpec { train_type: tt, head_end: g.bool(0.4), params, limits }
}

pub fn gen_link(g: &mut Gen, tp: &TrainParamSpec, elev0: f64, o: &ChainOpts) -> LinkSpec {
    let length = gen_length(g, o);
    // elevation points, continuous with the previous link
    let mut elevs = vec![];
    let mut headings = vec![];
    let mut cats = vec![];
    if o.geometry {
        let offs = gen_offsets(g, length, 5);
        let mut e = elev0;
        for (i, off) in offs.iter().enumerate() {
            if i > 0 {
                let grade = g.grid(-o.max_grade, o.max_grade, 40);
                let grade = if g.bool(0.25) { 0.0 } else { grade };
                e += grade * (off - offs[i - 1]);
                e = (e * 1000.0).round() / 1000.0;
            }
            elevs.push((*off, e));
        }
        if g.bool(0.7) {
            let offs = gen_offsets(g, length, 4);
            let mut h = g.grid(0.0, 6.25, 125);
            for (i, off) in offs.iter().enumerate() {
                if i > 0 {
                    match g.weighted(&[2, 5, 1]) {
                        0 => {}
                        1 => {
                            // heading change proportional to distance: up to ~8 deg / 100 ft
                            let d = off - offs[i - 1];
                            let rate = g.grid(-0.004, 0.004, 80);
                            h += rate * d;
                        }
                        _ => h += g.grid(-3.0, 3.0, 60),
                    }
                    h = h.rem_euclid(std::f64::consts::TAU);
                    h = (h * 1e6).round() / 1e6;
                    if h >= 6.283185 {
                        h = 0.0;
                    }
                }
                headings.push((*off, h));
            }
        }
        let nc = g.weighted(&[5, 2, 1, 1]);
        if nc > 0 {
            let mut cells: Vec<usize> = (0..2 * nc).map(|_| g.usize(0, 20)).collect();
            cells.sort();
            for k in 0..nc {
                let (a, b) = (cells[2 * k], cells[2 * k + 1]);
                // a == b: a section without extent (validation accepts it)
                let r = |c: usize| (length * c as f64 / 20.0 * 10.0).round() / 10.0;
                cats.push((r(a), r(b), g.grid(1.0e6, 8.0e6, 14)));
            }
        }
    } else {
        elevs = vec![(0.0, elev0), (length, elev0)];
    }
    let single = !o.multi_type || g.bool(0.6);
    let mut sets = vec![];
    if single {
        sets.push(gen_set(g, length, tp, tp.train_type, o));
    } else {
        // the train's own type plus up to two other types
        let mut types = vec![tp.train_type];
        for t in 1..=3u8 {
            if t != tp.train_type && g.bool(0.4) {
                types.push(t);
            }
        }
        types.sort();
        for t in types {
            sets.push(gen_set(g, length, tp, t, o));
        }
    }
    let coords = if headings.is_empty() { 0 } else { g.weighted(&[6, 2, 1, 1]) as u8 };
    LinkSpec { length, elevs, headings, cats, single, sets, coords }
}

pub fn gen_chain(g: &mut Gen, tp: &TrainParamSpec, o: &ChainOpts) -> Vec<LinkSpec> {
    let n = g.usize(1, o.max_links);
    let mut links = vec![];
    let mut e = g.grid(0.0, 500.0, 50);
    for _ in 0..n {
        let l = gen_link(g, tp, e, o);
        e = l.elevs.last().unwrap().1;
        links.push(l);
    }
    links
}

/// a composition of `n` into successive extend-call sizes
pub fn gen_partition(g: &mut Gen, n: usize) -> Vec<usize> {
    let mut parts = vec![];
    let mut left = n;
    while left > 0 {
        let k = if g.bool(0.35) { left } else { g.usize(1, left) };
        parts.push(k);
        left -= k;
    }
    parts
}

pub fn link_idxs(range: std::ops::Range<usize>) -> Vec<LinkIdx> {
    range.map(|i| LinkIdx::new(i as u32 + 1)).collect()
}

#[allow(dead_code)]
pub fn meters(x: si::Length) -> f64 {
    x.value
}
