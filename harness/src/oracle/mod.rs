pub mod geometry;
