//! Reference elevation walk E(x) and cumulative curve resistance K(x) over a chain route,
//! computed from the network's own points (DESIGN.md §4).

use crate::gen::net_chain::{LinkSpec, TrainParamSpec};

#[derive(Clone, Debug)]
pub struct Piecewise {
    /// (route offset, cumulative value) — continuous, piecewise linear
    pub pts: Vec<(f64, f64)>,
}

impl Piecewise {
    pub fn eval(&self, x: f64) -> f64 {
        let p = &self.pts;
        if x <= p[0].0 {
            return p[0].1;
        }
        for w in p.windows(2) {
            if x <= w[1].0 {
                let (a, b) = (w[0], w[1]);
                if b.0 == a.0 {
                    return b.1;
                }
                return a.1 + (b.1 - a.1) * (x - a.0) / (b.0 - a.0);
            }
        }
        p.last().unwrap().1
    }
    /// slopes of the segments adjacent to x (left, right); equal inside a segment
    pub fn slopes(&self, x: f64) -> (f64, f64) {
        let p = &self.pts;
        let slope = |i: usize| {
            let (a, b) = (p[i], p[i + 1]);
            (b.1 - a.1) / (b.0 - a.0)
        };
        let n = p.len() - 1; // number of segments
        let mut left = None;
        let mut right = None;
        for i in 0..n {
            if p[i].0 < x && x <= p[i + 1].0 {
                left = Some(slope(i));
            }
            if p[i].0 <= x && x < p[i + 1].0 {
                right = Some(slope(i));
            }
        }
        let l = left.or(right).unwrap_or(0.0);
        let r = right.or(left).unwrap_or(0.0);
        (l, r)
    }
    pub fn breakpoints(&self) -> Vec<f64> {
        self.pts.iter().map(|p| p.0).collect()
    }
}

pub fn bases(links: &[LinkSpec]) -> Vec<f64> {
    let mut b = vec![0.0];
    for l in links {
        b.push(b.last().unwrap() + l.length);
    }
    b
}

/// elevation along the route: walk the links' own elevation points
pub fn elevation(links: &[LinkSpec]) -> Piecewise {
    let b = bases(links);
    let mut pts: Vec<(f64, f64)> = vec![];
    let mut cur = links[0].elevs.first().map(|e| e.1).unwrap_or(0.0);
    for (j, l) in links.iter().enumerate() {
        if l.elevs.is_empty() {
            if pts.is_empty() {
                pts.push((b[j], cur));
            }
            pts.push((b[j + 1], cur));
            continue;
        }
        for (i, (off, e)) in l.elevs.iter().enumerate() {
            if i == 0 {
                if pts.is_empty() {
                    pts.push((b[j] + off, *e));
                    cur = *e;
                }
                continue;
            }
            cur += e - l.elevs[i - 1].1;
            pts.push((b[j] + off, cur));
        }
    }
    Piecewise { pts }
}

pub const DEG: f64 = 1.745_329_251_994_329_5e-2;
pub const FT: f64 = 0.3048;
pub const REV: f64 = 6.283_185_307_179_586;

/// curve resistance coefficient (dimensionless force per weight) for a heading change `dh`
/// over `ds` metres: documented piecewise polynomial of curvature in degrees per 100 ft
pub fn curve_coeff(dh: f64, ds: f64, tp: &TrainParamSpec) -> f64 {
    // smallest absolute angle between the two headings
    let mut d = dh.rem_euclid(REV);
    if d > REV / 2.0 {
        d = REV - d;
    }
    let curvature = d.abs() / ds; // rad per metre
    let one_degree = DEG / (FT * 100.0);
    let (c0, c1, c2) = tp.curve_coeffs;
    if curvature < one_degree {
        c0 * curvature
    } else {
        c0 * one_degree + c1 * (curvature - one_degree) + c2 * (curvature - one_degree) * (curvature - one_degree)
    }
}

/// cumulative curve resistance along the route
pub fn curve(links: &[LinkSpec], tp: &TrainParamSpec) -> Piecewise {
    let b = bases(links);
    let mut pts: Vec<(f64, f64)> = vec![(0.0, 0.0)];
    let mut cur = 0.0;
    for (j, l) in links.iter().enumerate() {
        if l.headings.is_empty() {
            pts.push((b[j + 1], cur));
            continue;
        }
        for w in l.headings.windows(2) {
            let ds = w[1].0 - w[0].0;
            cur += curve_coeff(w[1].1 - w[0].1, ds, tp) * ds;
            pts.push((b[j] + w[1].0, cur));
        }
    }
    Piecewise { pts }
}
