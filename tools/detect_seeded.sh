#!/bin/bash
# tools/detect_seeded.sh <ID> <check ids...> : phase 2 — apply /tmp/seeded/<ID>/patch.diff to /repo, run the quick checks, restore /repo and the evidence
set -u
ID=$1; shift
S=/tmp/seeded/$ID
cd /repo && git diff --quiet || { echo "/repo not clean"; exit 2; }
git -C /repo apply $S/patch.diff || { echo "patch does not apply to /repo"; exit 2; }
rm -rf /tmp/evidence.hold && cp -r /verif/evidence /tmp/evidence.hold
for c in "$@"; do
  out=$(cd /verif && ${VERIF_TIER_CMD:-./check $c quick} 2>&1 | grep -E "signature:|INCONCLUSIVE" | head -4 | cut -c1-160 | tr '\n' ';')
  echo "DETECT $ID by $c: ${out:-NOT DETECTED}"
done
git -C /repo checkout -- .
cp /tmp/evidence.hold/*.json /verif/evidence/ && rm -rf /tmp/evidence.hold
