#!/opt/veriftools/pyvenv/bin/python
"""validate MANIFEST.json and every evidence file against the given schemas"""
import json, sys, glob, jsonschema
m = json.load(open('/verif/MANIFEST.json'))
jsonschema.validate(m, json.load(open('/root/.vp/MANIFEST.schema.json')))
es = json.load(open('/root/.vp/EVIDENCE.schema.json'))
ids = [json.loads(l)['id'] for l in open('/verif/properties.jsonl')]
claimed = [c['property_id'] for c in m['checks']]
na = [c['property_id'] for c in m.get('not_applicable', [])]
assert sorted(claimed + na) == sorted(ids), (claimed, na)
bad = 0
for c in m['checks']:
    f = c['evidence_file']
    try:
        jsonschema.validate(json.load(open(f)), es)
    except Exception as e:
        bad += 1
        print('EVIDENCE PROBLEM', f, str(e)[:200])
print('manifest ok; claimed', len(claimed), 'not_applicable', len(na), 'evidence problems', bad)
sys.exit(1 if bad else 0)
