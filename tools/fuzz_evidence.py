#!/usr/bin/env python3
"""fuzz_evidence.py <id> <workdir> <budget_s> <wall_s> <libfuzzer_rc> <inconclusive> <seed> <jobs> <maxlen>
Adds what the libFuzzer stage executed (counted by the target itself, one line per input) to
evidence/<id>.json under coverage.libfuzzer_stage and prints a one-line summary."""
import sys, os, json, glob, re
pid, W, budget, wall, frc, inconc, seed, jobs, maxlen = sys.argv[1:10]
execs = 0; distinct = set(); nontrivial = set(); discards = 0; known = 0
for f in glob.glob(os.path.join(W, 'stats', 'stats-*')):
    for line in open(f, errors='replace'):
        p = line.split()
        if len(p) != 4: continue
        execs += 1
        distinct.add(p[0])
        if p[1] == '1': nontrivial.add(p[0])
        if p[2] == '1': discards += 1
        known += int(p[3])
cov = 0; ft = 0
try:
    for m in re.finditer(r'cov: (\d+) ft: (\d+)', open(os.path.join(W, 'fuzz.log'), errors='replace').read()):
        cov = max(cov, int(m.group(1))); ft = max(ft, int(m.group(2)))
except OSError:
    pass
corpus = len(os.listdir(os.path.join(W, 'corpus')))
stage = {
    "engine": "libFuzzer (cargo-fuzz, -fork, sanitizer none, altrios-core with debug assertions) over the generator's choice tape; same generator and oracle as the proptest tier",
    "budget_s": int(budget), "wall_s": int(wall), "jobs": int(jobs), "seed": int(seed), "max_len_bytes": int(maxlen),
    "executions": execs, "distinct_cases": len(distinct), "distinct_nontrivial": len(nontrivial),
    "discards": discards, "known_finding_hits": known,
    "coverage_edges": cov, "coverage_features": ft, "corpus_files_at_end": corpus,
    "inconclusive_inputs": int(inconc), "libfuzzer_exit": int(frc),
    "start_corpus": "48 generated tapes (vcheck seeds), a function of VERIF_SEED",
}
ev = f'/verif/evidence/{pid}.json'
try:
    e = json.load(open(ev))
    if e.get('tier') == 'thorough':
        e['coverage']['libfuzzer_stage'] = stage
        json.dump(e, open(ev, 'w'), indent=1)
except (OSError, ValueError):
    pass
print(f"{pid} libFuzzer stage: executions={execs} distinct={len(distinct)} nontrivial={len(nontrivial)} known_hits={known} cov={cov} corpus={corpus} inconclusive={inconc} wall={wall}s")
