#!/bin/bash
# tools/fuzz_stage.sh <Cxx> [seconds]
# Coverage-guided stage of the thorough tier: libFuzzer (fork mode, all cores) mutates the
# generator's choice tape; the target decodes it with the same generator and runs the same
# oracle as the proptest tier.  A crashing input is decoded to its case (JSON) and decided by
# the ordinary replay path, which prints the VIOLATION line.  Timeouts / OOM inputs are
# reported as inconclusive notes, never as violations.  Exit: 0 held / nothing decided, 1 violation.
set -u
id=$1; secs=${2:-${VERIF_FUZZ_SECS:-120}}
[ "$secs" -gt 0 ] 2>/dev/null || exit 0
export CARGO_NET_OFFLINE=true
vcheck=/verif/target/debug/vcheck
blog=/verif/work/fuzz-build.log
cd /verif/harness/fuzz || exit 0
if ! cargo +stable fuzz build -s none fz >"$blog" 2>&1; then
  echo "NOTE property=$id libFuzzer stage skipped: the target did not build (see $blog)"
  exit 0
fi
bin=/verif/target-fuzz/x86_64-unknown-linux-gnu/release/fz
[ -x "$bin" ] || { echo "NOTE property=$id libFuzzer stage skipped: $bin missing"; exit 0; }
W=/verif/work/fuzz/$id
rm -rf "$W"; mkdir -p "$W/corpus" "$W/artifacts" "$W/stats"
"$vcheck" seeds "$id" "$W/corpus" 48 || exit 0
maxlen=$(ls -l "$W/corpus" | awk 'NR>1{ if ($5>m) m=$5 } END{print m+0}')
seed=${VERIF_SEED:-1}; [ "$seed" = 0 ] && seed=1
seed=$(( (seed % 2147483646) + 1 ))
jobs=$(nproc)
t0=$(date +%s)
( cd "$W" && VERIF_FUZZ_PROP=$id VERIF_FUZZ_STATS="$W/stats" timeout -k 10 $((secs + 180)) \
    "$bin" -fork="$jobs" -max_total_time="$secs" -max_len="$maxlen" -len_control=0 -timeout=120 \
    -rss_limit_mb=3072 -seed="$seed" -artifact_prefix="$W/artifacts/" "$W/corpus" >"$W/fuzz.log" 2>&1 )
frc=$?
t1=$(date +%s)
rc=0
n_inconclusive=0
for a in "$W"/artifacts/*; do
  [ -f "$a" ] || continue
  case "$(basename "$a")" in
    crash-*)
      "$vcheck" from-bytes "$id" "$a" >"$a.case.json" 2>/dev/null || continue
      out=$("$vcheck" replay "$id" "$a.case.json" 2>&1); r=$?
      if [ $r -eq 1 ]; then
        echo "$out" | grep -v '^KNOWN-FINDING' | tail -n 6
        rc=1
      elif [ $r -ne 0 ]; then
        n_inconclusive=$((n_inconclusive + 1))
        echo "NOTE property=$id libFuzzer input $(basename "$a") could not be decided on replay (exit $r)"
      fi
      ;;
    timeout-*|oom-*|slow-unit-*)
      n_inconclusive=$((n_inconclusive + 1))
      echo "NOTE property=$id libFuzzer input $(basename "$a") hit the per-input time / memory limit: inconclusive, kept in $W/artifacts"
      ;;
  esac
done
python3 /verif/tools/fuzz_evidence.py "$id" "$W" "$secs" $((t1 - t0)) "$frc" "$n_inconclusive" "$seed" "$jobs" "$maxlen"
exit $rc
