#!/usr/bin/env python3
"""keep_seeded.py <ID> <slug> <needs> <detected_by(csv signatures)> : archive /tmp/seeded/<ID> into /verif/seeded/<ID>-<slug>/"""
import sys, os, shutil, json, subprocess
ID, slug, needs, detected = sys.argv[1:5]
src=f'/tmp/seeded/{ID}'; dst=f'/verif/seeded/{ID}-{slug}'
os.makedirs(dst, exist_ok=True)
for f in ['patch.diff', f'seeded_{ID}.rs', 'notes.md']:
    if os.path.exists(f'{src}/{f}'): shutil.copy(f'{src}/{f}', f'{dst}/{f}')
prop=open(f'/tmp/seeded/{ID}.property.txt').read().split('\n')[0]
meta={
 "breaks_property": ID[:3],
 "property_title": prop,
 "needs_to_manifest": needs,
 "files": {"patch": "patch.diff", "demonstration": f"seeded_{ID}.rs (integration test for rust/altrios-core/tests/)", "author_notes": "notes.md"},
 "confirmed_here": "tools/confirm_seeded.sh / confirm_wt.sh: applied in a scratch worktree outside /repo and /verif: `cargo test --workspace --no-fail-fast --offline` -> 102 passed with the change; demonstration test fails with the change and passes without it",
 "checks_run": f"git -C /repo apply patch.diff; ./check <id> quick; git -C /repo checkout -- .",
 "detected_by": [d for d in detected.split(';') if d],
 "base_commit": subprocess.run(['git','-C','/repo','rev-parse','--short','HEAD'],capture_output=True,text=True).stdout.strip(),
}
json.dump(meta, open(f'{dst}/meta.json','w'), indent=1)
print('kept', dst)
