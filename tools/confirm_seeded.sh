#!/bin/bash
# tools/confirm_seeded.sh <ID> [<check ids...>]
# 1. in the agent's scratch worktree /tmp/wt/<ID>: suite passes with the change (demo test
#    file moved away), demo fails with the change, passes without.
# 2. applies /tmp/seeded/<ID>/patch.diff to /repo, runs the given checks (quick), reverts.
set -u
ID=$1; shift
WT=/tmp/wt/$ID
S=/tmp/seeded/$ID
export CARGO_NET_OFFLINE=true
cd $WT/rust || exit 2
T=altrios-core/tests/seeded_$ID.rs
[ -f $T ] || cp $S/seeded_$ID.rs $T
# make sure the change is applied exactly as in patch.diff
git -C $WT checkout -- rust/altrios-core/src 2>/dev/null
git -C $WT apply $S/patch.diff || { echo "CONFIRM $ID: patch does not apply"; exit 2; }
mv $T /tmp/seeded_$ID.rs.hold
suite=$(cargo test --workspace --no-fail-fast --offline 2>&1 | grep -E "^test result" | head -1)
mv /tmp/seeded_$ID.rs.hold $T
with=$(cargo test -p altrios-core --offline --test seeded_$ID 2>&1 | grep -E "^test result" | head -1)
# (no `git stash`: the stash is shared by all worktrees of a repository)
git -C $WT checkout -- rust/altrios-core/src
without=$(cargo test -p altrios-core --offline --test seeded_$ID 2>&1 | grep -E "^test result" | head -1)
git -C $WT apply $S/patch.diff
echo "CONFIRM $ID suite-with-change: $suite"
echo "CONFIRM $ID demo-with-change:  $with"
echo "CONFIRM $ID demo-without:      $without"
# 3. run my checks against it
cd /repo && git diff --quiet || { echo "/repo not clean"; exit 2; }
git -C /repo apply $S/patch.diff || { echo "patch does not apply to /repo"; exit 2; }
# evidence written while a seeded change is applied must not replace the evidence of the unchanged tree
rm -rf /tmp/evidence.hold && cp -r /verif/evidence /tmp/evidence.hold
for c in "$@"; do
  out=$(cd /verif && ./check $c quick 2>&1 | grep -E "signature:|INCONCLUSIVE" | head -4 | cut -c1-160 | tr '\n' ';')
  echo "DETECT $ID by $c: ${out:-NOT DETECTED}"
done
git -C /repo checkout -- .
cp /tmp/evidence.hold/*.json /verif/evidence/ && rm -rf /tmp/evidence.hold
