#!/usr/bin/env python3
"""(re)write /verif/seeded/INDEX.md from the meta.json of every archived seeded change"""
import json, glob, os
rows=[]
for d in sorted(glob.glob('/verif/seeded/*/')):
    m=json.load(open(d+'meta.json'))
    rows.append((os.path.basename(d.rstrip('/')), m))
out=["# Independently seeded changes",
"",
"Each directory holds `patch.diff` (source change only), the author's demonstration test",
"(`seeded_<id>.rs`, an integration test for `rust/altrios-core/tests/`), `notes.md` and `meta.json`.",
"Authors were fresh sub-agents that saw only the text of one property and a scratch worktree of",
"/repo outside /repo and /verif — nothing from /verif.  Every change was confirmed here before it",
"was kept (`tools/confirm_seeded.sh`): it compiles, the repository's 102 tests + doc test pass with",
"it, the demonstration fails with it and passes without it.  The checks were then run with the",
"patch applied to /repo (`git -C /repo apply`), and /repo was restored (`git -C /repo checkout -- .`).",
"",
"| change | breaks | needs to manifest | detected by (quick tier) | note |",
"|---|---|---|---|---|"]
for name,m in rows:
    det='<br>'.join(m.get('detected_by') or ['**not detected**']).replace('|','\\|')
    out.append(f"| `{name}` | {m['breaks_property']} | {m['needs_to_manifest']} | {det} | {(m.get('history') or m.get('initially_missed') or '')} |")
out.append("")
out.append("To re-run one: `git -C /repo apply /verif/seeded/<dir>/patch.diff; (cd /verif && ./check <Cxx> quick); git -C /repo checkout -- .`")
open('/verif/seeded/INDEX.md','w').write('\n'.join(out)+'\n')
print(len(rows),'entries')
