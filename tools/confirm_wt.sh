#!/bin/bash
# tools/confirm_wt.sh <ID> : phase 1 of confirm_seeded.sh only (scratch worktree /tmp/wt/<ID>, never touches /repo):
# suite passes with the change (demo moved away), demo fails with the change, passes without.
set -u
ID=$1
WT=/tmp/wt/$ID
S=/tmp/seeded/$ID
export CARGO_NET_OFFLINE=true
cd $WT/rust || exit 2
T=altrios-core/tests/seeded_$ID.rs
[ -f $T ] || cp $S/seeded_$ID.rs $T
git -C $WT checkout -- rust/altrios-core/src 2>/dev/null
git -C $WT apply $S/patch.diff || { echo "CONFIRM $ID: patch does not apply"; exit 2; }
mv $T /tmp/seeded_$ID.rs.hold
suite=$(cargo test --workspace --no-fail-fast --offline 2>&1 | grep -E "^test result" | tr '\n' ';' | cut -c1-400)
mv /tmp/seeded_$ID.rs.hold $T
with=$(cargo test -p altrios-core --offline --test seeded_$ID 2>&1 | grep -E "^test result" | head -1)
git -C $WT checkout -- rust/altrios-core/src
without=$(cargo test -p altrios-core --offline --test seeded_$ID 2>&1 | grep -E "^test result" | head -1)
git -C $WT apply $S/patch.diff
echo "CONFIRM $ID suite-with-change: $suite"
echo "CONFIRM $ID demo-with-change:  $with"
echo "CONFIRM $ID demo-without:      $without"
