#!/usr/bin/env python3
"""(re)generate /verif/MANIFEST.json from the table below; run tools/validate.py afterwards"""
import json
props=[json.loads(l) for l in open('/verif/properties.jsonl')]
GEN="generated-input search (proptest-driven choice tape, shrinking, replay files; thorough tier adds a coverage-guided libFuzzer stage mutating the same tape under the same oracle)"
claimed={
 "C01":("every per-step power balance, every cumulative energy balance, every energy_*==own integral of pwr_*, SOC==soc0-chemical/capacity and consist totals==sums are re-computed from public state after every accepted step of generated adversarial histories (units and consists)", GEN+" vs algebraic ledger oracle"),
 "C02":("bound check against a brute-force pointwise-minimum model of all posted restrictions over generated restriction geometries and extend partitions", GEN+" vs brute-force reference model"),
 "C08":("per-step second-law invariants (loss>=0, eta in (0,1], |out|<=|in| per direction, monotone cumulative energies, dyn-brake only under braking, engine-off => zero fuel/aux) over generated histories incl. engine-off patterns", GEN+" vs invariant over the history"),
 "C09":("accepted => within: adversary reads the limits just published and requests at/below/above them; every accepted step is compared with ratings, published transient/SOC limits and the ramp-rate bound", GEN+" (stateful adversary) vs limit monitor"),
 "C10":("after every accepted consist step: conservation of demand, per-unit capability, sign agreement, regen placement and the battery-first rule, over generated consists/policies/histories", GEN+" vs validity predicate on the split"),
 "C03":("every saved step of generated speed-limited runs (whole path, link-by-link extension, and walk_timed_path over the dispatcher's own timed paths of generated corridor scenarios) is compared with an independently computed posted limit, the limit in force, monotone position and the stopping window; unwinds are violations; termination of walk() on a stalled train is probed in a child process", GEN+" vs independent posted-limit model + invariants over the history"),
 "C04":("every dispatcher snapshot (verif_hooks observer) and the final plan of generated corridor scenarios are checked for overlapping occupancy of a physical segment by opposing trains, of mutually exclusive segments, order changes inside a segment and the configured headway; plus a black-box check on the returned timed paths", GEN+" vs interval-overlap reference model over hook snapshots and final plan"),
 "C05":("returned plans are validated (one route per train, origin/departure/destination, contiguity, monotone times, never faster than free-running), errors must name trains and a reported occupancy conflict must be with a train that really blocks that segment (hook phase Failed), dispatch must not repeat an identical state for ever (livelock proof in the observer), any unwind or abort (incl. debug assertions and std unsafe-precondition checks) is a violation; supervisor/worker processes contain aborts", GEN+" vs plan validity predicate; abort containment by process isolation"),
 "C06":("the built path profile is compared point by point with an independent walk of the network's own elevation / heading / catenary points, with count cross-checks, one-shot vs incremental equality, a mirror-image metamorphic relation and rejection of corrupted routes", GEN+" vs reference model + differential (one-shot vs partitions) + metamorphic (mirror)"),
 "C07":("every saved step's six resistance forces, weight, front elevation and front/rear grades are recomputed from an independent walk of the network's own points and from the car list", GEN+" vs reference model (elevation / curve walk)"),
 "C11":("per saved step and at the end, power/energy numbers at train, consist and summed-locomotive level and the annualised trip getters are compared", GEN+" vs cross-level ledger"),
 "C12":("per saved step: time, front/rear position, total distance, front segment and in-segment offset recomputed from speeds and route", GEN+" vs kinematic reference"),
 "C14":("per step: (time,speed)==trace, wheel power == clamp(inertia+resistance) within the published limits, energy advance == power x trace dt; negative entries at generated indices must be rejected; traces that start moving from an initial state at rest included", GEN+" vs reference formula"),
 "C15":("every node, edge and start-to-end walk (exhaustive up to 4096) of the estimated-time net of generated corridor/train pairs is checked for reciprocity, acyclicity, route faithfulness, time bounds along edges and trip time == own shortest walk", GEN+" vs graph validity predicate + own DAG shortest path"),
 "C16":("valid generated networks must be accepted through every advertised entry point and reload equal (legacy layout included); single-fault mutants (46 operators incl. dangling references, NaN, infinity) must come back as Err, never Ok, never an unwind", GEN+" (valid + single-fault mutants) vs rule-list reference; round trip through text and files"),
 "C17":("32 object kinds x 6 save/load routes x {default, generated, mid-run} states: save/load must succeed, a second round trip must return the same object image, and simulations checkpointed at a generated step index and resumed must reproduce the uninterrupted run (exact for YAML/binary, parser-rounding tolerance for JSON)", GEN+" vs round-trip + differential (checkpoint/resume vs uninterrupted run)"),
 "C18":("every scenario kind is run three times on equal inputs (fresh threads, fresh hash keys) and compared value by value; batches of different locomotive simulations are walked serially and in rayon pools of 1-16 workers x 3 repetitions against solo references, with injected failing elements", GEN+" vs differential (repeat / serial vs parallel vs solo)"),
 "C19":("the serialised object tree of every simulation kind (incl. timed-path walks) is walked generically: all histories equal length == expected count, identical step columns equal to the exact expected step sequence, nested counters == top-level counter, nested save_interval == interval in force", GEN+" vs invariant over the object tree"),
 "C20":("model-based operation sequences on components and locomotives loaded from JSON with all known/unknown/contradictory field combinations; invariant + per-option post-conditions after every call; consist aggregates", GEN+" (operation sequences) vs model of the documented side-effect options"),
 "C13":("two-sided equality with the same brute-force model plus canonical-form invariants", GEN+" vs brute-force reference model"),
}
checks=[]
for p in props:
    i=p['id']
    if i in claimed:
        checks.append({
          "property_id":i,
          "quick_cmd":f"./check {i} quick",
          "thorough_cmd":f"./check {i} thorough",
          "evidence_file":f"/verif/evidence/{i}.json",
          "replay_cmd_template":f"./check {i} --replay {{path}}",
          "engine":"vcheck",
          "level_claimed":{"category":"exploration","text":claimed[i][0],"design_ref":"DESIGN.md §5 "+i},
          "level_note":"sampling, not proof: holds on every generated case of the stated domain; the harness oracle, the tolerance policy (DESIGN.md §4) and the generator bounds listed in the evidence file are trusted; open known findings (known_findings.json) are excluded by exact signature",
          "technique":claimed[i][1],
        })
na=[{"property_id":p['id'],"reason":"not claimed"} for p in props if p['id'] not in claimed]
hooks_commits=[l.strip() for l in open('/verif/tools/hook_commits.txt')] if __import__('os').path.exists('/verif/tools/hook_commits.txt') else []
m={
 "version":1,
 "setup_cmd":"cd /verif/harness && CARGO_NET_OFFLINE=true cargo build --offline",
 "hooks":{"guard":"cargo feature verif_hooks (altrios-core)","enable":"harness Cargo.toml depends on altrios-core by path with features=[\"verif_hooks\"]","baseline_off_cmd":"cd /repo/rust && cargo test --workspace --no-fail-fast --offline","source_commits":hooks_commits,"add_only":True},
 "engines":[{"name":"vcheck","path":"/verif/harness","serves_properties":sorted(claimed),"kind_free_text":"Rust library + binary: proptest-driven choice-tape generation, per-property oracle, shrinking, replay files, supervisor/worker processes for abort containment; harness/fuzz: one libFuzzer target over the same tape/generator/oracle (tools/fuzz_stage.sh, second stage of every thorough check)"}],
 "checks":checks,
 "notes":"exit 0 held / 1 VIOLATION / 2 INCONCLUSIVE (build failure, watchdog, generator health). Known findings: /verif/known_findings.json (open entries print KNOWN-FINDING and are excluded by exact signature; fixed entries suppress nothing).",
 "not_applicable":na,
}
json.dump(m,open('/verif/MANIFEST.json','w'),indent=1)
print("claimed",len(checks),"na",len(na))
